package e2

import (
	"go/constant"
	"go/token"
	"go/types"
	"sort"
	"strings"

	"golang.org/x/tools/go/ssa"
)

type cellEntryLen struct{ p *ssa.Parameter } // len of *p at function entry (p is *[]T)
type fvLen struct{ fv *ssa.FreeVar }

type Engine struct {
	prog     *ssa.Program
	inMod    func(*ssa.Function) bool
	fns      map[*ssa.Function]*Fn
	sums     map[*ssa.Function]*Summary
	callers  map[*ssa.Function][]*ssa.Call
	valueUse map[*ssa.Function]bool // function used as a value somewhere (not only static calls)
	invoked  map[string]bool        // method names called through an interface anywhere in the module
	pure     map[*ssa.Function]int
	cases    map[*ssa.Function][]retCase
}

type sumCand struct {
	desc string
	res  int // result index
	mk   func(e callEnv) Lin
	ok   bool
}

type callEnv struct {
	ret     func(i int) Lin // int value or len of slice/string result i
	arg     func(i int) Lin // int param i
	argLen  func(i int) Lin // len of slice/string param i
	cellLen func(i int) Lin // len of *param i before the call
}

type Summary struct {
	truePost   []*sumCand // for a bool result (index res): facts that hold whenever that result is true
	post       []*sumCand
	pre        []*sumCand   // preconditions on the parameters, proved at every call site (functions with known callers only)
	fvPre      []*sumCand   // closures: lower bounds on the length of immutable captured slices, proved where the closure is created
	cellShrink map[int]bool // param index -> callee never grows *param (candidate)
}

// guardedFact: fact holds wherever guard does (both about the same call result).
type guardedFact struct{ guard, fact Lin }

type Fn struct {
	e       *Engine
	f       *ssa.Function
	edgeF   map[*ssa.BasicBlock][]Lin
	edgeDQ  map[*ssa.BasicBlock][]Lin
	inv     map[*ssa.BasicBlock][]Lin
	global  []Lin
	callF   map[ssa.Instruction][]Lin         // postconditions of a call / tuple component, emitted where the instruction is
	guardF  map[ssa.Instruction][]guardedFact // postconditions that hold only under a guard on the result (a search that found something)
	pendG   []guardedFact                     // guarded postconditions produced by the callFacts call in progress
	noSplit *ssa.Call                         // call whose precondition is being proved: its own return cases must not be used
	pre     []Lin                             // assumed preconditions (proved at every call site); not exported to callers
	seen    map[interface{}]bool
	loadOf  map[*ssa.UnOp]ssa.Value    // canonical representative
	cellInv map[*ssa.Alloc][]ssa.Value // alloc -> params P with len(*alloc) <= len(P)
	reach   map[*ssa.BasicBlock]map[*ssa.BasicBlock]bool
}

func isInt(t types.Type) bool {
	b, ok := t.Underlying().(*types.Basic)
	return ok && b.Info()&types.IsInteger != 0
}
func isStr(t types.Type) bool {
	b, ok := t.Underlying().(*types.Basic)
	return ok && b.Info()&types.IsString != 0
}
func isSliceOrStr(t types.Type) bool {
	if _, ok := t.Underlying().(*types.Slice); ok {
		return true
	}
	return isStr(t)
}
func isByteSlice(t types.Type) bool {
	if s, ok := t.Underlying().(*types.Slice); ok {
		if b, ok := s.Elem().Underlying().(*types.Basic); ok && b.Kind() == types.Uint8 {
			return true
		}
	}
	return false
}
func intWidth(t types.Type) (bits int, unsigned bool) {
	b := t.Underlying().(*types.Basic)
	unsigned = b.Info()&types.IsUnsigned != 0
	switch b.Kind() {
	case types.Int8, types.Uint8:
		return 8, unsigned
	case types.Int16, types.Uint16:
		return 16, unsigned
	case types.Int32, types.Uint32:
		return 32, unsigned
	}
	return 64, unsigned
}

func calleeName(c *ssa.Call) string {
	if f := c.Call.StaticCallee(); f != nil {
		// an instance of a generic library function goes by the name of the generic
		if o := f.Origin(); o != nil && o != f {
			return o.String()
		}
		return f.String()
	}
	return ""
}

func newFn(e *Engine, f *ssa.Function) *Fn {
	s := &Fn{e: e, f: f, seen: map[interface{}]bool{}, loadOf: map[*ssa.UnOp]ssa.Value{}, inv: map[*ssa.BasicBlock][]Lin{}, callF: map[ssa.Instruction][]Lin{}, guardF: map[ssa.Instruction][]guardedFact{}}
	s.computeReach()
	s.canonLoads()
	s.buildEdgeFacts()
	if sum := e.sums[f]; sum != nil {
		env := callEnv{
			arg:    func(i int) Lin { return s.canon(f.Params[i]) },
			argLen: func(i int) Lin { return s.lenOf(f.Params[i]) },
		}
		for _, c := range sum.pre {
			if c.ok {
				s.pre = append(s.pre, c.mk(env))
			}
		}
		fvEnv := callEnv{argLen: func(i int) Lin { return term(fvLen{f.FreeVars[i]}) }}
		for _, c := range sum.fvPre {
			if c.ok {
				s.pre = append(s.pre, c.mk(fvEnv))
			}
		}
	}
	return s
}

func (s *Fn) computeReach() {
	s.reach = map[*ssa.BasicBlock]map[*ssa.BasicBlock]bool{}
	for _, b := range s.f.Blocks {
		r := map[*ssa.BasicBlock]bool{}
		var st []*ssa.BasicBlock
		st = append(st, b.Succs...)
		for len(st) > 0 {
			x := st[len(st)-1]
			st = st[:len(st)-1]
			if r[x] {
				continue
			}
			r[x] = true
			st = append(st, x.Succs...)
		}
		s.reach[b] = r
	}
}

func (s *Fn) isLoopHeader(b *ssa.BasicBlock) bool {
	for _, p := range b.Preds {
		if b.Dominates(p) {
			return true
		}
	}
	return false
}

// ---- load canonicalisation ----

type addrK struct {
	root ssa.Value
	path string
}

func addrKey(a ssa.Value) (addrK, bool) {
	switch x := a.(type) {
	case *ssa.Alloc, *ssa.FreeVar, *ssa.Parameter, *ssa.Global:
		return addrK{x, ""}, true
	case *ssa.FieldAddr:
		return addrK{x.X, "." + string(rune('a'+x.Field))}, true
	case *ssa.IndexAddr:
		// an element of a slice parameter at a constant position (the detectors' input): one memory cell as long
		// as nothing in between may store into a slice
		if p, ok := x.X.(*ssa.Parameter); ok && isSliceOrStr(p.Type()) {
			if k, ok := x.Index.(*ssa.Const); ok && k.Value != nil && k.Value.Kind() == constant.Int {
				return addrK{p, "[" + k.Value.ExactString() + "]"}, true
			}
		}
	}
	return addrK{}, false
}

func (e *Engine) isPure(f *ssa.Function) bool {
	if f == nil {
		return false
	}
	switch e.pure[f] {
	case 1:
		return true
	case 2, 3:
		return e.pure[f] == 3 // optimistic on recursion
	}
	e.pure[f] = 3
	ok := true
	if f.Blocks == nil {
		ok = false
		n := f.String()
		for _, p := range []string{"bytes.", "strings.", "unicode/utf8.", "(encoding/binary.", "internal/bytealg."} {
			if strings.HasPrefix(n, p) {
				ok = true
			}
		}
	}
	for _, b := range f.Blocks {
		for _, in := range b.Instrs {
			switch x := in.(type) {
			case *ssa.Store:
				k, okk := addrKey(x.Addr)
				if a, isA := k.root.(*ssa.Alloc); !okk || !isA || a.Parent() != f {
					if ia, okIA := x.Addr.(*ssa.IndexAddr); okIA {
						if al, okAl := ia.X.(*ssa.Alloc); okAl && al.Parent() == f {
							continue
						}
					}
					ok = false
				}
			case *ssa.MapUpdate:
				ok = false
			case *ssa.Call:
				if _, isB := x.Call.Value.(*ssa.Builtin); isB {
					continue
				}
				if !e.isPure(x.Call.StaticCallee()) {
					ok = false
				}
			case *ssa.Go, *ssa.Defer, *ssa.Send:
				ok = false
			}
		}
	}
	if !e.inMod(f) && f.Blocks != nil {
		// external with body: allow only the listed packages
		ok = false
		n := f.String()
		for _, p := range []string{"bytes.", "strings.", "unicode/utf8.", "(encoding/binary.", "internal/bytealg.", "unicode."} {
			if strings.HasPrefix(n, p) {
				ok = true
			}
		}
	}
	if ok {
		e.pure[f] = 1
	} else {
		e.pure[f] = 2
	}
	return ok
}

func (s *Fn) allocEscapes(a *ssa.Alloc) (passedToCall bool, other bool) {
	for _, r := range *a.Referrers() {
		switch x := r.(type) {
		case *ssa.Store:
			if x.Val == a {
				other = true
			}
		case *ssa.UnOp, *ssa.FieldAddr, *ssa.IndexAddr, *ssa.DebugRef:
		case *ssa.Call:
			passedToCall = true
		case *ssa.MakeClosure:
			// captured by a closure that only reads it, and the closure value goes nowhere but into calls: the
			// variable changes only where this function changes it
			if !readOnlyCapture(x, a) {
				other = true
			}
		default:
			other = true
		}
	}
	return
}

// readOnlyCapture: the closure mc captures cell a, never stores through the
// captured variable (nor hands its address on), and mc itself is used only as
// the callee or an argument of calls.
func readOnlyCapture(mc *ssa.MakeClosure, a *ssa.Alloc) bool {
	fn, ok := mc.Fn.(*ssa.Function)
	if !ok {
		return false
	}
	for i, b := range mc.Bindings {
		if b != ssa.Value(a) || i >= len(fn.FreeVars) {
			continue
		}
		for _, ref := range *fn.FreeVars[i].Referrers() {
			switch y := ref.(type) {
			case *ssa.UnOp:
				if y.Op != token.MUL {
					return false
				}
			case *ssa.DebugRef:
			default:
				return false // stored to, re-captured, its address passed on ...
			}
		}
	}
	for _, ref := range *mc.Referrers() {
		switch y := ref.(type) {
		case *ssa.Call:
			_ = y
		case *ssa.DebugRef:
		default:
			return false
		}
	}
	return true
}

// clobbers reports whether instruction in may change the memory at key k.
func (s *Fn) clobbers(in ssa.Instruction, k addrK) bool {
	switch x := in.(type) {
	case *ssa.Store:
		if strings.HasPrefix(k.path, "[") {
			// an element cell: any store through an index into a slice may alias it; stores to named cells cannot
			if ia, isIdx := x.Addr.(*ssa.IndexAddr); isIdx {
				if _, isArr := ia.X.Type().Underlying().(*types.Pointer); isArr {
					return false // element of a local / global array, not of a slice
				}
				return true
			}
			return false
		}
		k2, ok := addrKey(x.Addr)
		if !ok || strings.HasPrefix(k2.path, "[") {
			// store through IndexAddr etc.: cannot hit a scalar/slice-header cell
			// unless the root is memory of unknown shape
			if _, isIdx := x.Addr.(*ssa.IndexAddr); isIdx {
				return false // element store never changes a named variable/field cell
			}
			return true
		}
		if k2 == k {
			return true
		}
		// distinct local allocs never alias
		a1, isA1 := k.root.(*ssa.Alloc)
		a2, isA2 := k2.root.(*ssa.Alloc)
		if isA1 && isA2 {
			return false
		}
		if isA1 || isA2 {
			var a *ssa.Alloc
			if isA1 {
				a = a1
			} else {
				a = a2
			}
			if pc, oth := s.allocEscapes(a); !pc && !oth {
				return false
			}
		}
		if k.path != k2.path {
			return false // different fields
		}
		if _, fv := k.root.(*ssa.FreeVar); fv {
			return false
		}
		return true
	case *ssa.Call:
		if bi, isB := x.Call.Value.(*ssa.Builtin); isB {
			return strings.HasPrefix(k.path, "[") && bi.Name() == "copy"
		}
		if a, isA := k.root.(*ssa.Alloc); isA {
			for _, arg := range x.Call.Args {
				if arg == a {
					return true
				}
			}
			if _, oth := s.allocEscapes(a); !oth {
				return false
			}
		}
		if _, fv := k.root.(*ssa.FreeVar); fv {
			return false // immutability checked separately
		}
		// read-only library searches over a slice change nothing but what their callbacks change
		switch calleeName(x) {
		case "slices.Index", "slices.IndexFunc", "slices.Contains", "slices.ContainsFunc", "slices.Equal", "slices.EqualFunc", "bytes.ContainsFunc", "bytes.IndexFunc", "strings.ContainsFunc", "strings.IndexFunc":
			for _, arg := range x.Call.Args {
				if _, isFn := arg.Type().Underlying().(*types.Signature); !isFn {
					continue
				}
				var fn *ssa.Function
				switch y := arg.(type) {
				case *ssa.Function:
					fn = y
				case *ssa.MakeClosure:
					fn, _ = y.Fn.(*ssa.Function)
				}
				if fn == nil || !s.e.isPure(fn) {
					return true
				}
			}
			return false
		}
		return !s.e.isPure(x.Call.StaticCallee())
	case *ssa.MapUpdate, *ssa.Defer, *ssa.Go:
		return false
	}
	return false
}

func (s *Fn) canonLoads() {
	type ld struct {
		u *ssa.UnOp
		k addrK
	}
	var loads []ld
	for _, b := range s.f.Blocks {
		for _, in := range b.Instrs {
			if u, ok := in.(*ssa.UnOp); ok && u.Op == token.MUL {
				if k, ok := addrKey(u.X); ok {
					loads = append(loads, ld{u, k})
				}
			}
		}
	}
	idx := func(in ssa.Instruction) int {
		for i, x := range in.Block().Instrs {
			if x == in {
				return i
			}
		}
		return -1
	}
	// dominators first (block numbering need not follow dominance), then program order inside a block
	depthOf := func(b *ssa.BasicBlock) int {
		d := 0
		for x := b.Idom(); x != nil; x = x.Idom() {
			d++
		}
		return d
	}
	sort.SliceStable(loads, func(i, j int) bool {
		bi, bj := loads[i].u.Block(), loads[j].u.Block()
		if bi != bj {
			di, dj := depthOf(bi), depthOf(bj)
			if di != dj {
				return di < dj
			}
			return bi.Index < bj.Index
		}
		return idx(loads[i].u) < idx(loads[j].u)
	})
	for _, l := range loads {
		if a, ok := l.k.root.(*ssa.Alloc); ok && l.k.path == "" {
			if st, ok := writeOnceCell(a); ok {
				sb, lb := st.Block(), l.u.Block()
				if (sb == lb && instrIndex(st) < instrIndex(l.u)) || (sb != lb && sb.Dominates(lb)) {
					s.loadOf[l.u] = st.Val
				}
			}
		}
	}
	for i, l2 := range loads {
		if _, done := s.loadOf[l2.u]; done {
			continue
		}
		for j := 0; j < i; j++ {
			l1 := loads[j]
			if l1.k != l2.k {
				continue
			}
			b1, b2 := l1.u.Block(), l2.u.Block()
			if !(b1 == b2 || b1.Dominates(b2)) {
				continue
			}
			clob := false
			scan := func(ins []ssa.Instruction) {
				for _, in := range ins {
					if s.clobbers(in, l1.k) {
						clob = true
					}
				}
			}
			if b1 == b2 {
				scan(b1.Instrs[idx(l1.u)+1 : idx(l2.u)])
			} else {
				scan(b1.Instrs[idx(l1.u)+1:])
				scan(b2.Instrs[:idx(l2.u)])
				for _, b := range s.f.Blocks {
					if s.reach[b1][b] && s.reach[b][b2] {
						if b == b1 || b == b2 {
							// in a cycle: whole block may execute in between
							scan(b.Instrs)
						} else {
							scan(b.Instrs)
						}
					}
				}
			}
			if !clob {
				rep := ssa.Value(l1.u)
				if r, ok := s.loadOf[l1.u]; ok {
					rep = r
				}
				s.loadOf[l2.u] = rep
				break
			}
		}
	}
}

// immutable closure cell: returns the value stored into it by the parent.
func instrIndex(in ssa.Instruction) int {
	for i, x := range in.Block().Instrs {
		if x == in {
			return i
		}
	}
	return -1
}

// writeOnceCell: a local variable that lives in memory only because closures capture it, is assigned exactly once
// (by the owning function, never through a closure) and whose address goes nowhere else: every load the store
// dominates yields the stored value.
func writeOnceCell(a *ssa.Alloc) (*ssa.Store, bool) {
	var st *ssa.Store
	captured := false
	for _, r := range *a.Referrers() {
		switch x := r.(type) {
		case *ssa.Store:
			if x.Addr != ssa.Value(a) || st != nil {
				return nil, false
			}
			st = x
		case *ssa.MakeClosure:
			captured = true
			clo, _ := x.Fn.(*ssa.Function)
			if clo == nil {
				return nil, false
			}
			for i, b := range x.Bindings {
				if b != ssa.Value(a) {
					continue
				}
				fv := clo.FreeVars[i]
				for _, r2 := range *fv.Referrers() {
					switch r2.(type) {
					case *ssa.UnOp, *ssa.DebugRef:
					default:
						return nil, false // stored through, or handed on
					}
				}
			}
		case *ssa.UnOp, *ssa.DebugRef:
		default:
			return nil, false
		}
	}
	return st, st != nil && captured
}

func immutableCell(fv *ssa.FreeVar) (ssa.Value, bool) {
	g := fv.Parent()
	for _, r := range *fv.Referrers() {
		if st, ok := r.(*ssa.Store); ok && st.Addr == fv {
			return nil, false
		}
		if _, ok := r.(*ssa.UnOp); !ok {
			if _, ok := r.(*ssa.DebugRef); !ok {
				return nil, false
			}
		}
	}
	idx := -1
	for i, x := range g.FreeVars {
		if x == fv {
			idx = i
		}
	}
	p := g.Parent()
	if p == nil || idx < 0 {
		return nil, false
	}
	var val ssa.Value
	n := 0
	for _, b := range p.Blocks {
		for _, in := range b.Instrs {
			mc, ok := in.(*ssa.MakeClosure)
			if !ok || mc.Fn != g {
				continue
			}
			n++
			a, ok := mc.Bindings[idx].(*ssa.Alloc)
			if !ok {
				return nil, false
			}
			stores := 0
			for _, r := range *a.Referrers() {
				switch x := r.(type) {
				case *ssa.Store:
					if x.Addr == a {
						stores++
						val = x.Val
						// the store happens before the closure exists
						if !(x.Block() == mc.Block() && instrIndex(x) < instrIndex(mc)) && !(x.Block() != mc.Block() && x.Block().Dominates(mc.Block())) {
							return nil, false
						}
					} else {
						return nil, false
					}
				case *ssa.MakeClosure, *ssa.DebugRef:
				case *ssa.UnOp:
				default:
					return nil, false
				}
			}
			if stores != 1 {
				return nil, false
			}
		}
	}
	if n != 1 {
		return nil, false
	}
	return val, true
}

// ---- intervals ----

const bigLen = int64(1) << 56

func (e *Engine) iv(v ssa.Value, depth int) (lo, hi int64, ok bool) {
	if depth > 12 {
		return 0, 0, false
	}
	switch x := v.(type) {
	case *ssa.Const:
		if x.Value != nil && x.Value.Kind() == constant.Int {
			if i, ok := constant.Int64Val(x.Value); ok {
				return i, i, true
			}
		}
	case *ssa.Convert:
		if isInt(x.X.Type()) && isInt(x.Type()) {
			lo, hi, ok := e.iv(x.X, depth+1)
			bits, uns := intWidth(x.Type())
			var tlo, thi int64
			if uns {
				tlo = 0
				if bits == 64 {
					thi = 1<<62 - 1 + 1<<62
				} else {
					thi = 1<<uint(bits) - 1
				}
			} else {
				if bits == 64 {
					tlo, thi = -1<<63, 1<<63-1
				} else {
					tlo, thi = -(1 << uint(bits-1)), 1<<uint(bits-1)-1
				}
			}
			if ok && lo >= tlo && hi <= thi {
				return lo, hi, true
			}
			if bits < 64 || uns {
				return tlo, thi, true
			}
		}
	case *ssa.Phi:
		first := true
		for _, ed := range x.Edges {
			l, h, ok := e.iv(ed, depth+3)
			if !ok {
				return 0, 0, false
			}
			if first || l < lo {
				lo = l
			}
			if first || h > hi {
				hi = h
			}
			first = false
		}
		return lo, hi, !first
	case *ssa.BinOp:
		if !isInt(x.Type()) {
			break
		}
		bits, uns := intWidth(x.Type())
		a, b, ok1 := e.iv(x.X, depth+1)
		c, d, ok2 := e.iv(x.Y, depth+1)
		if ok1 && ok2 {
			var l, h int64
			okk := true
			mulOK := func(p, q int64) (int64, bool) {
				if p == 0 || q == 0 {
					return 0, true
				}
				r := p * q
				if r/q != p || (p > 1<<31 && q > 1<<31) {
					return 0, false
				}
				return r, true
			}
			switch x.Op {
			case token.ADD:
				l, h = a+c, b+d
				if (c > 0 && l < a) || (d > 0 && h < b) {
					okk = false
				}
			case token.SUB:
				l, h = a-d, b-c
			case token.MUL:
				vals := [][2]int64{{a, c}, {a, d}, {b, c}, {b, d}}
				for i, pq := range vals {
					r, o := mulOK(pq[0], pq[1])
					if !o {
						okk = false
					}
					if i == 0 || r < l {
						l = r
					}
					if i == 0 || r > h {
						h = r
					}
				}
			default:
				okk = false
			}
			if okk {
				// must fit the type without wrapping
				if uns {
					var thi int64 = 1<<62 - 1 + 1<<62
					if bits < 64 {
						thi = 1<<uint(bits) - 1
					}
					if l >= 0 && h <= thi {
						return l, h, true
					}
				} else if bits == 64 || (l >= -(1<<uint(bits-1)) && h <= 1<<uint(bits-1)-1) {
					return l, h, true
				}
			}
		}
		if uns && bits < 64 {
			return 0, 1<<uint(bits) - 1, true
		}
	case *ssa.Call:
		if b, ok := x.Call.Value.(*ssa.Builtin); ok && b.Name() == "len" {
			return 0, bigLen, true
		}
		if b, ok := x.Call.Value.(*ssa.Builtin); ok && (b.Name() == "min" || b.Name() == "max") && isInt(x.Type()) {
			// min: the result is below every argument, and above the smallest lower bound when all are known
			// max: dually
			const inf = int64(1) << 62
			isMin := b.Name() == "min"
			allKnown := true
			best, worst := inf, inf // min: best = smallest known upper bound, worst = smallest lower bound
			if !isMin {
				best, worst = -inf, -inf // max: best = largest known lower bound, worst = largest upper bound
			}
			anyKnown := false
			for _, a := range x.Call.Args {
				l, h, ok := e.iv(a, depth+1)
				if !ok {
					allKnown = false
					continue
				}
				anyKnown = true
				if isMin {
					if h < best {
						best = h
					}
					if l < worst {
						worst = l
					}
				} else {
					if l > best {
						best = l
					}
					if h > worst {
						worst = h
					}
				}
			}
			if anyKnown {
				if isMin {
					lo, hi = -inf, best
					if allKnown {
						lo = worst
					}
				} else {
					lo, hi = best, inf
					if allKnown {
						hi = worst
					}
				}
				return lo, hi, true
			}
		}
		if f := x.Call.StaticCallee(); f != nil && f.Pkg != nil && f.Pkg.Pkg.Path() == "math/bits" {
			switch f.Name() {
			case "LeadingZeros8", "TrailingZeros8", "OnesCount8", "Len8":
				return 0, 8, true
			case "LeadingZeros16", "TrailingZeros16", "OnesCount16", "Len16":
				return 0, 16, true
			case "LeadingZeros32", "TrailingZeros32", "OnesCount32", "Len32":
				return 0, 32, true
			case "LeadingZeros64", "TrailingZeros64", "OnesCount64", "Len64", "LeadingZeros", "TrailingZeros", "OnesCount", "Len":
				return 0, 64, true
			}
		}
	case *ssa.Parameter:
		f := x.Parent()
		if e.inMod(f) && e.knownCallers(f) {
			pi := -1
			for i, p := range f.Params {
				if p == x {
					pi = i
				}
			}
			first := true
			for _, c := range e.callers[f] {
				l, h, ok := e.iv(c.Call.Args[pi], depth+4)
				if !ok {
					return 0, 0, false
				}
				if first || l < lo {
					lo = l
				}
				if first || h > hi {
					hi = h
				}
				first = false
			}
			return lo, hi, !first
		}
	case *ssa.UnOp:
		if x.Op == token.MUL {
			if fv, ok := x.X.(*ssa.FreeVar); ok {
				if val, ok := immutableCell(fv); ok {
					return e.iv(val, depth+1)
				}
			}
		}
	}
	if isInt(v.Type()) {
		bits, uns := intWidth(v.Type())
		if uns && bits < 64 {
			return 0, 1<<uint(bits) - 1, true
		}
		if uns {
			return 0, 1<<62 - 1 + 1<<62, true
		}
	}
	return 0, 0, false
}
