package e2

import (
	"fmt"
	"sort"
	"strings"

	"golang.org/x/tools/go/ssa"
)

// Term keys (all comparable).
type lenKey struct{ v ssa.Value }     // len of a slice/string SSA value
type fvKey struct{ fv *ssa.FreeVar }  // value held in an immutable closure cell
type cellPre struct{ call *ssa.Call } // content of the pointer-arg cell just before call
type inlKey struct {                  // callee-internal term instantiated at a call site
	call *ssa.Call
	t    interface{}
}

type Lin struct {
	c int64
	m map[interface{}]int64
}

func konst(c int64) Lin { return Lin{c: c, m: map[interface{}]int64{}} }
func term(t interface{}) Lin {
	return Lin{m: map[interface{}]int64{t: 1}}
}
func (a Lin) add(b Lin, k int64) Lin {
	r := Lin{c: a.c + k*b.c, m: make(map[interface{}]int64, len(a.m)+len(b.m))}
	for t, v := range a.m {
		r.m[t] = v
	}
	for t, v := range b.m {
		r.m[t] += k * v
		if r.m[t] == 0 {
			delete(r.m, t)
		}
	}
	return r
}
func (a Lin) plus(c int64) Lin  { return a.add(konst(c), 1) }
func (a Lin) scale(k int64) Lin { return konst(0).add(a, k) }
func (a Lin) isConst() bool     { return len(a.m) == 0 }

// le returns the fact a <= b as (a-b <= 0).
func le(a, b Lin) Lin { return a.add(b, -1) }

// lt returns a < b as a-b+1 <= 0.
func lt(a, b Lin) Lin { return a.add(b, -1).plus(1) }

func (a Lin) subst(f func(t interface{}) (Lin, bool)) Lin {
	r := konst(a.c)
	for t, k := range a.m {
		if l, ok := f(t); ok {
			r = r.add(l, k)
		} else {
			r = r.add(term(t), k)
		}
	}
	return r
}

func termName(t interface{}) string {
	switch x := t.(type) {
	case lenKey:
		return "len(" + x.v.Name() + ")"
	case fvKey:
		return "fv(" + x.fv.Name() + ")"
	case fvLen:
		return "len(captured " + x.fv.Name() + ")"
	case cellPre:
		return "cellpre@" + x.call.Name()
	case inlKey:
		return "inl@" + x.call.Name() + "{" + termName(x.t) + "}"
	case ssa.Value:
		return x.Name()
	}
	return fmt.Sprintf("%v", t)
}

func (a Lin) String() string {
	var ps []string
	for t, v := range a.m {
		ps = append(ps, fmt.Sprintf("%+d*%s", v, termName(t)))
	}
	sort.Strings(ps)
	return fmt.Sprintf("%s %+d <= 0", strings.Join(ps, " "), a.c)
}

// unsat decides (soundly for "true") whether the conjunction of c_i <= 0 is
// infeasible over the rationals, by Fourier–Motzkin elimination.
func unsat(cs []Lin) bool {
	cur := make([]Lin, 0, len(cs))
	seen := map[string]bool{}
	for _, c := range cs {
		k := c.String()
		if !seen[k] {
			seen[k] = true
			cur = append(cur, c)
		}
	}
	for round := 0; round < 200; round++ {
		vars := map[interface{}]bool{}
		for _, c := range cur {
			if len(c.m) == 0 && c.c > 0 {
				return true
			}
			for t := range c.m {
				vars[t] = true
			}
		}
		if len(vars) == 0 {
			return false
		}
		var best interface{}
		bestCost := 1 << 30
		for t := range vars {
			p, n := 0, 0
			for _, c := range cur {
				if k := c.m[t]; k > 0 {
					p++
				} else if k < 0 {
					n++
				}
			}
			cost := p*n - p - n
			if cost < bestCost || (cost == bestCost && termName(t) < termName(best)) {
				bestCost, best = cost, t
			}
		}
		var pos, negs, rest []Lin
		for _, c := range cur {
			k := c.m[best]
			switch {
			case k > 0:
				pos = append(pos, c)
			case k < 0:
				negs = append(negs, c)
			default:
				rest = append(rest, c)
			}
		}
		for _, p := range pos {
			for _, n := range negs {
				kp, kn := p.m[best], -n.m[best]
				g := gcd(kp, kn)
				r := p.scale(kn/g).add(n, kp/g)
				rest = append(rest, r)
			}
		}
		if len(rest) > 6000 {
			return false
		}
		// dedupe
		seen = map[string]bool{}
		cur = cur[:0]
		for _, c := range rest {
			if len(c.m) == 0 && c.c <= 0 {
				continue
			}
			k := c.String()
			if !seen[k] {
				seen[k] = true
				cur = append(cur, c)
			}
		}
	}
	return false
}

func gcd(a, b int64) int64 {
	if a < 0 {
		a = -a
	}
	if b < 0 {
		b = -b
	}
	for b != 0 {
		a, b = b, a%b
	}
	if a == 0 {
		return 1
	}
	return a
}

// cone restricts facts to those transitively sharing a term with the goal.
func cone(fs []Lin, goal Lin) []Lin {
	vars := map[interface{}]bool{}
	for t := range goal.m {
		vars[t] = true
	}
	used := make([]bool, len(fs))
	var out []Lin
	for changed := true; changed; {
		changed = false
		for i, f := range fs {
			if used[i] {
				continue
			}
			hit := false
			for t := range f.m {
				if vars[t] {
					hit = true
					break
				}
			}
			if hit {
				used[i] = true
				out = append(out, f)
				for t := range f.m {
					if !vars[t] {
						vars[t] = true
						changed = true
					}
				}
			}
		}
	}
	return out
}
