package e2

import (
	"fmt"
	"go/constant"
	"go/token"
	"go/types"
	"sort"
	"strings"

	"golang.org/x/tools/go/ssa"
	"golang.org/x/tools/go/ssa/ssautil"
)

const mod = "github.com/gabriel-vasile/mimetype"

func (e *Engine) fn(f *ssa.Function) *Fn {
	if s, ok := e.fns[f]; ok {
		return s
	}
	s := newFn(e, f)
	e.fns[f] = s
	s.cellInvariants()
	s.houdini()
	return s
}

// cases cache lives on the engine
var _ = constant.MakeBool

func (e *Engine) modFuncs() []*ssa.Function {
	var out []*ssa.Function
	for f := range ssautil.AllFunctions(e.prog) {
		if e.inMod(f) && f.Blocks != nil && f.Synthetic == "" {
			out = append(out, f)
		}
	}
	sort.Slice(out, func(i, j int) bool { return out[i].String() < out[j].String() })
	return out
}

// ---- summary candidates ----

func (e *Engine) initSummaries(fs []*ssa.Function) {
	for _, f := range fs {
		sum := &Summary{cellShrink: map[int]bool{}}
		res := f.Signature.Results()
		// constants appearing in the callee
		consts := map[int64]bool{}
		for _, b := range f.Blocks {
			for _, in := range b.Instrs {
				for _, op := range in.Operands(nil) {
					if k, ok := (*op).(*ssa.Const); ok && k.Value != nil && k.Value.Kind() == constant.Int && isInt(k.Type()) {
						if v, ok := constant.Int64Val(k.Value); ok && v > 1 && v < 1<<20 {
							consts[v] = true
						}
					}
				}
			}
		}
		for ri := 0; ri < res.Len(); ri++ {
			ri := ri
			rt := res.At(ri).Type()
			add := func(desc string, mk func(e callEnv) Lin) {
				sum.post = append(sum.post, &sumCand{desc: fmt.Sprintf("r%d %s", ri, desc), res: ri, mk: mk, ok: true})
			}
			if isInt(rt) {
				for _, k := range []int64{1, 0, -1} {
					k := k
					add(fmt.Sprintf(">=%d", k), func(e callEnv) Lin { return le(konst(k), e.ret(ri)) })
				}
				for c := range consts {
					c := c
					add(fmt.Sprintf("<=%d", c), func(e callEnv) Lin { return le(e.ret(ri), konst(c)) })
				}
				for pi, p := range f.Params {
					pi := pi
					if isSliceOrStr(p.Type()) {
						add(fmt.Sprintf("<=len(p%d)", pi), func(e callEnv) Lin { return le(e.ret(ri), e.argLen(pi)) })
						add(fmt.Sprintf("<len(p%d)", pi), func(e callEnv) Lin { return lt(e.ret(ri), e.argLen(pi)) })
					}
					if bits, uns := intWidthOK(p.Type()); bits && !uns && intSame(p.Type(), rt) {
						add(fmt.Sprintf(">=p%d", pi), func(e callEnv) Lin { return le(e.arg(pi), e.ret(ri)) })
						add(fmt.Sprintf(">=p%d+1", pi), func(e callEnv) Lin { return lt(e.arg(pi), e.ret(ri)) })
						add(fmt.Sprintf("<=p%d", pi), func(e callEnv) Lin { return le(e.ret(ri), e.arg(pi)) })
						add(fmt.Sprintf("<=p%d+1", pi), func(e callEnv) Lin { return le(e.ret(ri), e.arg(pi).plus(1)) })
					}
				}
			} else if isSliceOrStr(rt) {
				for pi, p := range f.Params {
					pi := pi
					if isSliceOrStr(p.Type()) {
						add(fmt.Sprintf("len<=len(p%d)", pi), func(e callEnv) Lin { return le(e.ret(ri), e.argLen(pi)) })
					}
				}
			}
		}
		for bk := 0; bk < res.Len(); bk++ {
			bk := bk
			if bt, ok := res.At(bk).Type().Underlying().(*types.Basic); ok && bt.Kind() == types.Bool {
				addT := func(desc string, mk func(e callEnv) Lin) {
					sum.truePost = append(sum.truePost, &sumCand{desc: fmt.Sprintf("r%d true => %s", bk, desc), res: bk, mk: mk, ok: true})
				}
				// relations among the parameters that a true verdict establishes (bounded advance: pos + n <= len)
				for si, sp := range f.Params {
					si := si
					if !isSliceOrStr(sp.Type()) {
						continue
					}
					var ints []int
					for ii, ip := range f.Params {
						if ok, uns := intWidthOK(ip.Type()); ok && !uns {
							ints = append(ints, ii)
						}
					}
					for _, a := range ints {
						a := a
						addT(fmt.Sprintf("p%d<=len(p%d)", a, si), func(e callEnv) Lin { return le(e.arg(a), e.argLen(si)) })
						addT(fmt.Sprintf("p%d>=0", a), func(e callEnv) Lin { return le(konst(0), e.arg(a)) })
						for _, b := range ints {
							b := b
							if b > a {
								addT(fmt.Sprintf("p%d+p%d<=len(p%d)", a, b, si), func(e callEnv) Lin { return le(e.arg(a).add(e.arg(b), 1), e.argLen(si)) })
							}
						}
					}
				}
				// other int results against the slice parameters
				for ri := 0; ri < res.Len(); ri++ {
					ri := ri
					if ri == bk || !isInt(res.At(ri).Type()) {
						continue
					}
					for pi, p := range f.Params {
						pi := pi
						if isSliceOrStr(p.Type()) {
							addT(fmt.Sprintf("r%d<len(p%d)", ri, pi), func(e callEnv) Lin { return lt(e.ret(ri), e.argLen(pi)) })
							addT(fmt.Sprintf("r%d<=len(p%d)", ri, pi), func(e callEnv) Lin { return le(e.ret(ri), e.argLen(pi)) })
						}
					}
				}
				for pi, p := range f.Params {
					pi := pi
					if !isSliceOrStr(p.Type()) {
						continue
					}
					ks := []int64{1, 2, 3, 4}
					for c := range consts {
						ks = append(ks, c, c+1)
					}
					for _, k := range ks {
						k := k
						addT(fmt.Sprintf("len(p%d)>=%d", pi, k), func(e callEnv) Lin { return le(konst(k), e.argLen(pi)) })
					}
					for pj, q := range f.Params {
						pj := pj
						if pj == pi || !isSliceOrStr(q.Type()) {
							continue
						}
						for _, c := range []int64{0, 1, 2} {
							c := c
							addT(fmt.Sprintf("len(p%d)>=len(p%d)+%d", pi, pj, c), func(e callEnv) Lin { return le(e.argLen(pj).plus(c), e.argLen(pi)) })
						}
					}
				}
			}
		}
		for pi, p := range f.Params {
			if pt, ok := p.Type().Underlying().(*types.Pointer); ok {
				if _, ok := pt.Elem().Underlying().(*types.Slice); ok {
					sum.cellShrink[pi] = true
				}
			}
		}
		// captured variables: a closure's immutable captured slice has a fixed length; lower bounds on it are proved
		// once, where the closure is created (whoever calls it later)
		if f.Parent() != nil {
			for fi, fv := range f.FreeVars {
				fi, fv := fi, fv
				pt, ok := fv.Type().Underlying().(*types.Pointer)
				if !ok || !isSliceOrStr(pt.Elem()) {
					continue
				}
				if _, ok := immutableCell(fv); !ok {
					continue
				}
				ks := map[int64]bool{1: true, 2: true, 3: true, 4: true}
				for c := range consts {
					if c < 1<<16 {
						ks[c], ks[c+1] = true, true
					}
				}
				for k := range ks {
					k := k
					sum.fvPre = append(sum.fvPre, &sumCand{desc: fmt.Sprintf("pre len(fv%d)>=%d", fi, k), res: fi, ok: true,
						mk: func(e callEnv) Lin { return le(konst(k), e.argLen(fi)) }})
				}
			}
		}
		if e.knownCallers(f) {
			addP := func(desc string, mk func(e callEnv) Lin) {
				sum.pre = append(sum.pre, &sumCand{desc: "pre " + desc, mk: mk, ok: true})
			}
			for pi, p := range f.Params {
				pi := pi
				if bits, uns := intWidthOK(p.Type()); bits && !uns {
					addP(fmt.Sprintf("p%d>=0", pi), func(e callEnv) Lin { return le(konst(0), e.arg(pi)) })
					// below the length of every fixed-size array the callee indexes
					arrs := map[int64]bool{}
					for _, b := range f.Blocks {
						for _, in := range b.Instrs {
							if ia, ok := in.(*ssa.IndexAddr); ok {
								if pt, ok := ia.X.Type().Underlying().(*types.Pointer); ok {
									if at, ok := pt.Elem().Underlying().(*types.Array); ok {
										arrs[at.Len()] = true
									}
								}
							}
						}
					}
					for k := range arrs {
						k := k
						addP(fmt.Sprintf("p%d<%d", pi, k), func(e callEnv) Lin { return lt(e.arg(pi), konst(k)) })
					}
					for pj, q := range f.Params {
						pj := pj
						if isSliceOrStr(q.Type()) {
							addP(fmt.Sprintf("p%d<=len(p%d)", pi, pj), func(e callEnv) Lin { return le(e.arg(pi), e.argLen(pj)) })
							addP(fmt.Sprintf("p%d<len(p%d)", pi, pj), func(e callEnv) Lin { return lt(e.arg(pi), e.argLen(pj)) })
						}
					}
				}
				if isSliceOrStr(p.Type()) {
					ks := map[int64]bool{1: true, 2: true, 3: true, 4: true}
					for c := range consts {
						if c < 1<<16 {
							ks[c], ks[c+1] = true, true
						}
					}
					for k := range ks {
						k := k
						addP(fmt.Sprintf("len(p%d)>=%d", pi, k), func(e callEnv) Lin { return le(konst(k), e.argLen(pi)) })
					}
				}
			}
		}
		e.sums[f] = sum
	}
}

// onlyCalled: every use of the closure value is as the callee of a plain call.
func onlyCalled(mc *ssa.MakeClosure) bool {
	for _, ref := range *mc.Referrers() {
		switch x := ref.(type) {
		case *ssa.Call:
			if x.Call.Value != ssa.Value(mc) {
				return false
			}
			for _, a := range x.Call.Args {
				if a == ssa.Value(mc) {
					return false
				}
			}
		case *ssa.DebugRef:
		default:
			return false
		}
	}
	return true
}

// intWidthOK: t is a full-width integer type (int, int64, uint, uint64) whose arithmetic the linear forms model.
func intWidthOK(t types.Type) (ok bool, unsigned bool) {
	if !isInt(t) {
		return false, false
	}
	bits, uns := intWidth(t)
	return bits == 64, uns
}

func intSame(a, b types.Type) bool {
	if !isInt(a) || !isInt(b) {
		return false
	}
	ab, au := intWidth(a)
	bb, bu := intWidth(b)
	return ab == bb && au == bu
}

// knownCallers: every call of f is a static call inside the module: f is not
// exported, never used as a value, is not a method that an interface call
// could reach, and has at least one caller.
func (e *Engine) knownCallers(f *ssa.Function) bool {
	if e.valueUse[f] || len(e.callers[f]) == 0 || f.Synthetic != "" {
		return false
	}
	obj := f.Object()
	if obj == nil {
		// anonymous function: its closures are only ever called directly (valueUse is false)
		return f.Parent() != nil
	}
	if obj.Exported() {
		return false
	}
	if f.Signature.Recv() != nil && e.invoked[f.Name()] {
		return false
	}
	return true
}

// checkPre proves every surviving precondition candidate at every call site; returns true if any was dropped.
func (e *Engine) checkPre(fs []*ssa.Function) bool {
	dropped := false
	for _, f := range fs {
		sum := e.sums[f]
		if sum == nil || len(sum.pre) == 0 {
			continue
		}
		for _, c := range e.callers[f] {
			g := c.Parent()
			s := e.fn(g)
			b := c.Block()
			idx := 0
			for i, in := range b.Instrs {
				if in == ssa.Instruction(c) {
					idx = i
				}
			}
			facts, dq := s.factsAt(b, idx)
			env := s.callEnvAt(c, func(int) Lin { return konst(0) })
			s.noSplit = c
			for _, cand := range sum.pre {
				if cand.ok && !s.entails(facts, dq, cand.mk(env)) {
					cand.ok = false
					dropped = true
				}
			}
			s.noSplit = nil
		}
	}
	return dropped
}

// checkFvPre proves the captured-variable preconditions of closures where the closures are created.
func (e *Engine) checkFvPre(fs []*ssa.Function) bool {
	dropped := false
	for _, f := range fs {
		sum := e.sums[f]
		if sum == nil || len(sum.fvPre) == 0 {
			continue
		}
		parent := f.Parent()
		if parent == nil {
			continue
		}
		s := e.fn(parent)
		for _, b := range parent.Blocks {
			for idx, in := range b.Instrs {
				mc, ok := in.(*ssa.MakeClosure)
				if !ok || mc.Fn != ssa.Value(f) {
					continue
				}
				facts, dq := s.factsAt(b, idx)
				env := callEnv{argLen: func(i int) Lin {
					v, ok := immutableCell(f.FreeVars[i])
					if !ok {
						return term(inlKey{nil, i})
					}
					return s.lenOf(v)
				}}
				for _, cand := range sum.fvPre {
					if cand.ok && !s.entails(facts, dq, cand.mk(env)) {
						cand.ok = false
						dropped = true
					}
				}
			}
		}
	}
	return dropped
}

// checkSummaries re-verifies every surviving candidate; returns true if any was dropped.
func (e *Engine) checkSummaries(fs []*ssa.Function) bool {
	dropped := false
	for _, f := range fs {
		sum := e.sums[f]
		if len(sum.post) == 0 && len(sum.cellShrink) == 0 && len(sum.truePost) == 0 {
			continue
		}
		s := e.fn(f)
		if len(sum.truePost) > 0 {
			for _, b := range f.Blocks {
				r, ok := b.Instrs[len(b.Instrs)-1].(*ssa.Return)
				if !ok {
					continue
				}
				env := callEnv{
					ret: func(i int) Lin {
						v := r.Results[i]
						if isInt(v.Type()) {
							return s.canon(v)
						}
						return s.lenOf(v)
					},
					arg:    func(i int) Lin { return s.canon(f.Params[i]) },
					argLen: func(i int) Lin { return s.lenOf(f.Params[i]) },
				}
				ctxs := map[int][]factCtx{}
				for _, c := range sum.truePost {
					if !c.ok {
						continue
					}
					cs, done := ctxs[c.res]
					if !done {
						cs = s.trueContexts(b, r.Results[c.res])
						ctxs[c.res] = cs
					}
					for _, ctx := range cs {
						if !s.entails(ctx.fs, ctx.dq, c.mk(env)) {
							c.ok = false
							dropped = true
							break
						}
					}
				}
			}
		}
		for _, b := range f.Blocks {
			r, ok := b.Instrs[len(b.Instrs)-1].(*ssa.Return)
			if !ok {
				continue
			}
			facts, dq := s.factsAt(b, len(b.Instrs))
			env := callEnv{
				ret: func(i int) Lin {
					v := r.Results[i]
					if isInt(v.Type()) {
						return s.canon(v)
					}
					return s.lenOf(v)
				},
				arg:    func(i int) Lin { return s.canon(f.Params[i]) },
				argLen: func(i int) Lin { return s.lenOf(f.Params[i]) },
				cellLen: func(i int) Lin {
					k := cellEntryLen{f.Params[i]}
					return term(k)
				},
			}
			for _, c := range sum.post {
				if c.ok && !s.entails(facts, dq, c.mk(env)) {
					c.ok = false
					dropped = true
				}
			}
		}
		// cell shrink: every store to *param keeps len <= entry len
		for pi := range sum.cellShrink {
			if !sum.cellShrink[pi] {
				continue
			}
			p := f.Params[pi]
			for _, b := range f.Blocks {
				for idx, in := range b.Instrs {
					switch x := in.(type) {
					case *ssa.Store:
						if x.Addr != ssa.Value(p) {
							continue
						}
						facts, dq := s.factsAt(b, idx)
						if !s.entails(facts, dq, le(s.lenOf(x.Val), term(cellEntryLen{p}))) {
							sum.cellShrink[pi] = false
							dropped = true
						}
					case *ssa.Call:
						for _, a := range x.Call.Args {
							if a == ssa.Value(p) {
								sum.cellShrink[pi] = false // passes the cell on: not handled
								dropped = true
							}
						}
					}
				}
			}
		}
	}
	return dropped
}

type factCtx struct{ fs, dq []Lin }

// trueContexts: the fact sets under which the bool value v, returned at the
// end of block b, may be true (phis of short-circuit operators are split by edge).
func (s *Fn) trueContexts(b *ssa.BasicBlock, v ssa.Value) []factCtx {
	if k, ok := v.(*ssa.Const); ok {
		if k.Value != nil && k.Value.Kind() == constant.Bool && !constant.BoolVal(k.Value) {
			return nil
		}
		fs, dq := s.factsAt(b, len(b.Instrs))
		return []factCtx{{fs, dq}}
	}
	if ph, ok := v.(*ssa.Phi); ok && ph.Block() == b {
		var out []factCtx
		for i, e := range ph.Edges {
			pred := b.Preds[i]
			if k, ok := e.(*ssa.Const); ok && k.Value != nil && k.Value.Kind() == constant.Bool && !constant.BoolVal(k.Value) {
				continue
			}
			fs, dq := s.factsAt(pred, len(pred.Instrs))
			ef, eq := s.edgeFacts(pred, b)
			fs = append(append([]Lin{}, fs...), ef...)
			dq = append(append([]Lin{}, dq...), eq...)
			if _, isC := e.(*ssa.Const); !isC {
				cf, cq := s.condFacts(e, true)
				fs = append(fs, cf...)
				dq = append(dq, cq...)
			}
			out = append(out, factCtx{fs, dq})
		}
		return out
	}
	fs, dq := s.factsAt(b, len(b.Instrs))
	cf, cq := s.condFacts(v, true)
	return []factCtx{{append(append([]Lin{}, fs...), cf...), append(append([]Lin{}, dq...), cq...)}}
}

// cellInvariants: for local allocs of slice type passed by address to callees.
func (s *Fn) cellInvariants() {
	s.cellInv = map[*ssa.Alloc][]ssa.Value{}
	for _, b := range s.f.Blocks {
		for _, in := range b.Instrs {
			a, ok := in.(*ssa.Alloc)
			if !ok {
				continue
			}
			if _, ok := a.Type().Underlying().(*types.Pointer).Elem().Underlying().(*types.Slice); !ok {
				continue
			}
			passed, other := s.allocEscapes(a)
			if !passed || other {
				continue
			}
			cands := s.sliceParams()
			for iter := 0; iter < 4; iter++ {
				s.cellInv[a] = cands
				// reset lazily-registered facts that depend on cellInv
				var keep []ssa.Value
				for _, p := range cands {
					ok := true
					for _, r := range *a.Referrers() {
						switch x := r.(type) {
						case *ssa.Store:
							blk := x.Block()
							idx := 0
							for i, y := range blk.Instrs {
								if y == ssa.Instruction(x) {
									idx = i
								}
							}
							fs, dq := s.factsAt(blk, idx)
							if !s.entails(fs, dq, le(s.lenOf(x.Val), s.lenOf(p))) {
								ok = false
							}
						case *ssa.Call:
							f := x.Call.StaticCallee()
							if f == nil || s.e.sums[f] == nil {
								ok = false
								break
							}
							for ai, arg := range x.Call.Args {
								if arg == ssa.Value(a) && !s.e.sums[f].cellShrink[ai] {
									ok = false
								}
							}
						}
					}
					if ok {
						keep = append(keep, p)
					}
				}
				if len(keep) == len(cands) {
					break
				}
				cands = keep
			}
			s.cellInv[a] = cands
		}
	}
}

// Site is one index / slice obligation.
type Site struct {
	Pos    token.Pos
	Fn     *ssa.Function
	Instr  ssa.Instruction
	Kind   string // index | slice
	What   string
	OK     bool
	WhyNot string
	Const  bool // discharged by constants alone
}

// LoopRes is the ranking result for one loop.
type LoopRes struct {
	Fn     *ssa.Function
	Header *ssa.BasicBlock
	Range  bool
	Ranked bool
	By     string
}

// Result of the engine over the whole module.
type Result struct {
	Sites     []Site
	Loops     []LoopRes
	Summaries map[*ssa.Function][]string
	Eng       *Engine
}

// callPre: minimum argument length required by an external callee that
// panics otherwise (encoding/binary fixed-width readers).
func callPre(c *ssa.Call) (int64, ssa.Value) {
	f := c.Call.StaticCallee()
	if f == nil || f.Pkg == nil || f.Pkg.Pkg.Path() != "encoding/binary" || len(c.Call.Args) == 0 {
		return 0, nil
	}
	arg := c.Call.Args[len(c.Call.Args)-1]
	switch f.Name() {
	case "Uint16":
		return 2, arg
	case "Uint32":
		return 4, arg
	case "Uint64":
		return 8, arg
	}
	return 0, nil
}

// Run analyses every source function of the module.
func Run(prog *ssa.Program, inMod func(*ssa.Function) bool) *Result {
	e := &Engine{prog: prog, fns: map[*ssa.Function]*Fn{}, sums: map[*ssa.Function]*Summary{},
		callers: map[*ssa.Function][]*ssa.Call{}, valueUse: map[*ssa.Function]bool{}, pure: map[*ssa.Function]int{},
		cases: map[*ssa.Function][]retCase{}}
	e.inMod = inMod
	e.invoked = map[string]bool{}
	fs := e.modFuncs()
	var withInit []*ssa.Function
	for f := range ssautil.AllFunctions(prog) {
		if e.inMod(f) && f.Blocks != nil {
			withInit = append(withInit, f)
		}
	}
	for _, f := range withInit {
		for _, b := range f.Blocks {
			for _, in := range b.Instrs {
				if c, ok := in.(*ssa.Call); ok {
					if g := c.Call.StaticCallee(); g != nil {
						e.callers[g] = append(e.callers[g], c)
					}
				}
				if ci, ok := in.(ssa.CallInstruction); ok {
					if ci.Common().IsInvoke() {
						e.invoked[ci.Common().Method.Name()] = true
					}
					if _, isCall := in.(*ssa.Call); !isCall {
						// go / defer of a static callee: a call site whose facts are not modelled
						if g := ci.Common().StaticCallee(); g != nil {
							e.valueUse[g] = true
						}
					}
				}
				for _, op := range in.Operands(nil) {
					if g, ok := (*op).(*ssa.Function); ok {
						if c, isCall := in.(*ssa.Call); isCall && c.Call.Value == ssa.Value(g) {
							continue
						}
						if mc, isMC := in.(*ssa.MakeClosure); isMC && mc.Fn == ssa.Value(g) && onlyCalled(mc) {
							continue // a closure that is only called, never stored or passed
						}
						e.valueUse[g] = true
					}
				}
			}
		}
	}
	// a synthetic wrapper (bound method value, thunk, interface method wrapper) calling a module function stands
	// for unknown callers of that function
	for f := range ssautil.AllFunctions(prog) {
		if f.Synthetic == "" || f.Blocks == nil || (f.Name() == "init" && f.Pkg != nil) {
			continue
		}
		for _, b := range f.Blocks {
			for _, in := range b.Instrs {
				if ci, ok := in.(ssa.CallInstruction); ok {
					if g := ci.Common().StaticCallee(); g != nil {
						e.valueUse[g] = true
					}
				}
			}
		}
	}
	e.initSummaries(fs)
	// greatest fixpoint: candidates are only ever dropped, so this terminates; every survivor was
	// re-proved in the last round under exactly the surviving set
	for {
		e.fns = map[*ssa.Function]*Fn{}
		e.cases = map[*ssa.Function][]retCase{}
		d1 := e.checkSummaries(fs)
		d2 := e.checkPre(fs)
		d3 := e.checkFvPre(fs)
		if !d1 && !d2 && !d3 {
			break
		}
	}
	res := &Result{Summaries: map[*ssa.Function][]string{}, Eng: e}
	for _, f := range fs {
		var keep []string
		for _, c := range e.sums[f].post {
			if c.ok {
				keep = append(keep, c.desc)
			}
		}
		for _, c := range e.sums[f].truePost {
			if c.ok {
				keep = append(keep, c.desc)
			}
		}
		for pi, ok := range e.sums[f].cellShrink {
			if ok {
				keep = append(keep, fmt.Sprintf("cellShrink(p%d)", pi))
			}
		}
		for _, c := range e.sums[f].pre {
			if c.ok {
				keep = append(keep, c.desc)
			}
		}
		sort.Strings(keep)
		res.Summaries[f] = keep
	}
	// final pass with stable summaries
	e.fns = map[*ssa.Function]*Fn{}
	e.cases = map[*ssa.Function][]retCase{}
	for _, f := range fs {
		s := e.fn(f)
		for _, b := range f.Blocks {
			for idx, in := range b.Instrs {
				var x ssa.Value
				var lo, hi, i ssa.Value
				kind := ""
				switch v := in.(type) {
				case *ssa.IndexAddr:
					x, i, kind = v.X, v.Index, "index"
				case *ssa.Index:
					x, i, kind = v.X, v.Index, "index"
				case *ssa.Slice:
					x, lo, hi, kind = v.X, v.Low, v.High, "slice"
				case *ssa.Call:
					// preconditions of external callees that panic on short input
					if need, arg := callPre(v); need > 0 {
						facts, dq := s.factsAt(b, idx)
						o := Site{Pos: in.Pos(), Fn: f, Instr: in, Kind: "call-pre", What: in.String(), OK: true}
						if g := le(konst(need), s.lenOf(arg)); !s.entails(facts, dq, g) {
							o.OK = false
							o.WhyNot = fmt.Sprintf("len(argument) >= %d not proved [%s]", need, g.String())
						}
						res.Sites = append(res.Sites, o)
					}
					continue
				case *ssa.BinOp:
					if (v.Op == token.QUO || v.Op == token.REM) && isInt(v.Type()) {
						facts, dq := s.factsAt(b, idx)
						o := Site{Pos: in.Pos(), Fn: f, Instr: in, Kind: "div", What: in.String(), OK: true}
						d := s.canon(v.Y)
						if !(s.entails(facts, dq, le(konst(1), d)) || s.entails(facts, dq, le(d, konst(-1)))) {
							o.OK = false
							o.WhyNot = "divisor != 0 not proved"
						}
						res.Sites = append(res.Sites, o)
					}
					continue
				case *ssa.SliceToArrayPointer:
					// (*[N]T)(s) and [N]T(s) panic when len(s) < N
					if pt, ok := v.Type().Underlying().(*types.Pointer); ok {
						if at, ok := pt.Elem().Underlying().(*types.Array); ok {
							facts, dq := s.factsAt(b, idx)
							o := Site{Pos: in.Pos(), Fn: f, Instr: in, Kind: "convert", What: in.String(), OK: true}
							if g := le(konst(at.Len()), s.lenOf(v.X)); !s.entails(facts, dq, g) {
								o.OK = false
								o.WhyNot = fmt.Sprintf("len(slice) >= %d not proved [%s]", at.Len(), g.String())
							}
							res.Sites = append(res.Sites, o)
						}
					}
					continue
				case *ssa.MakeSlice:
					facts, dq := s.factsAt(b, idx)
					o := Site{Pos: in.Pos(), Fn: f, Instr: in, Kind: "make", What: in.String(), OK: true}
					if g := le(konst(0), s.canon(v.Len)); !s.entails(facts, dq, g) {
						o.OK = false
						o.WhyNot = "make length >= 0 not proved"
					}
					res.Sites = append(res.Sites, o)
					continue
				default:
					continue
				}
				facts, dq := s.factsAt(b, idx)
				L := s.lenOfX(x)
				o := Site{Pos: in.Pos(), Fn: f, Instr: in, Kind: kind, What: in.String(), OK: true}
				fail := func(w string, g Lin) {
					o.OK = false
					o.WhyNot += w + "[" + g.String() + "] "
				}
				if kind == "index" {
					iv := s.canon(i)
					if iv.isConst() && L.isConst() {
						o.Const = true
					}
					if g := le(konst(0), iv); !s.entails(facts, dq, g) {
						fail("index >= 0 not proved", g)
					}
					if g := lt(iv, L); !s.entails(facts, dq, g) {
						fail("index < len not proved", g)
					}
				} else {
					l := konst(0)
					if lo != nil {
						l = s.canon(lo)
						if g := le(konst(0), l); !s.entails(facts, dq, g) {
							fail("low >= 0 not proved", g)
						}
					}
					h := L
					if hi != nil {
						h = s.canon(hi)
						if g := le(h, L); !s.entails(facts, dq, g) {
							fail("high <= len not proved", g)
						}
						if lo == nil {
							if g := le(konst(0), h); !s.entails(facts, dq, g) {
								fail("high >= 0 not proved", g)
							}
						}
					}
					if lo != nil {
						if g := le(l, h); !s.entails(facts, dq, g) {
							fail("low <= high not proved", g)
						}
					}
					if lo == nil && hi == nil {
						o.Const = true
					}
				}
				res.Sites = append(res.Sites, o)
			}
		}
	}
	for _, f := range fs {
		res.Loops = append(res.Loops, e.fn(f).rankLoops()...)
	}
	return res
}

// ---- termination: ranking functions for non-range loops ----

type loopInfo struct {
	header  *ssa.BasicBlock
	blocks  map[*ssa.BasicBlock]bool
	latches []*ssa.BasicBlock
}

func findLoops(f *ssa.Function) []loopInfo {
	var out []loopInfo
	for _, h := range f.Blocks {
		var latches []*ssa.BasicBlock
		for _, p := range h.Preds {
			if h.Dominates(p) {
				latches = append(latches, p)
			}
		}
		if len(latches) == 0 {
			continue
		}
		body := map[*ssa.BasicBlock]bool{h: true}
		var st []*ssa.BasicBlock
		st = append(st, latches...)
		for len(st) > 0 {
			x := st[len(st)-1]
			st = st[:len(st)-1]
			if body[x] {
				continue
			}
			body[x] = true
			st = append(st, x.Preds...)
		}
		out = append(out, loopInfo{h, body, latches})
	}
	return out
}

// loopInvariant: x has the same value in every iteration of lp.
func (s *Fn) loopInvariant(x ssa.Value, lp loopInfo) bool {
	in, ok := x.(ssa.Instruction)
	if !ok {
		return true // parameter, constant, global
	}
	if !lp.blocks[in.Block()] {
		return true
	}
	u, ok := x.(*ssa.UnOp)
	if !ok || u.Op != token.MUL {
		return false
	}
	k, ok := addrKey(u.X)
	if !ok {
		return false
	}
	// the base of the address must itself be invariant
	switch r := k.root.(type) {
	case *ssa.Parameter, *ssa.Global, *ssa.FreeVar:
	case *ssa.Alloc:
		if lp.blocks[r.Block()] {
			return false
		}
	default:
		return false
	}
	for blk := range lp.blocks {
		for _, ins := range blk.Instrs {
			if s.clobbers(ins, k) {
				return false
			}
		}
	}
	return true
}

// rankLoops tries, for every loop of f, to find a ranking expression.
func (s *Fn) rankLoops() (out []LoopRes) {
	for _, lp := range findLoops(s.f) {
		if strings.HasPrefix(lp.header.Comment, "rangeindex") {
			out = append(out, LoopRes{Fn: s.f, Header: lp.header, Range: true, Ranked: true, By: "range over slice/array/string"})
			continue
		}
		// candidate measures: for every int phi p at the header: +p and -p ; for every slice/string phi: len
		type cand struct {
			desc string
			at   func(edge int) Lin // value of the measure carried by header edge `edge`; -1 = current
		}
		var cands []cand
		for _, in := range lp.header.Instrs {
			ph, isPhi := in.(*ssa.Phi)
			if !isPhi {
				break
			}
			ph2 := ph
			switch {
			case isInt(ph.Type()):
				cands = append(cands,
					cand{"-" + ph.Name(), func(e int) Lin {
						if e < 0 {
							return s.canon(ph2).scale(-1)
						}
						return s.canon(ph2.Edges[e]).scale(-1)
					}},
					cand{"+" + ph.Name(), func(e int) Lin {
						if e < 0 {
							return s.canon(ph2)
						}
						return s.canon(ph2.Edges[e])
					}})
			case isSliceOrStr(ph.Type()):
				cands = append(cands, cand{"len(" + ph.Name() + ")", func(e int) Lin {
					if e < 0 {
						return s.lenOf(ph2)
					}
					return s.lenOf(ph2.Edges[e])
				}})
			}
		}
		found := ""
		for _, c := range cands {
			good := true
			// strictly decreasing on every back edge
			for i, p := range lp.header.Preds {
				if !lp.header.Dominates(p) {
					continue
				}
				fs, dq := s.factsAt(p, len(p.Instrs))
				ef, eq := s.edgeFacts(p, lp.header)
				fs = append(fs, ef...)
				dq = append(dq, eq...)
				if !s.entails(fs, dq, lt(c.at(i), c.at(-1))) {
					good = false
					break
				}
			}
			if !good {
				continue
			}
			// bounded below while the loop continues: measure >= B for some loop-invariant bound:
			// we look for a fact on some latch "measure >= k" for a constant k, or measure + invariant >= 0.
			// Simplification: bounded if at every latch the facts entail measure(current) >= -len(p) - 1 for a slice param, or >= -C.
			bounded := false
			var bounds []Lin
			bounds = append(bounds, konst(-(1 << 20)))
			for _, sp := range s.sliceParams() {
				bounds = append(bounds, s.lenOf(sp).scale(-1).plus(-1))
			}
			// len(x) of a value that cannot change while the loop runs (defined outside the loop, or a load
			// of a location that nothing in the loop may write)
			for blk := range lp.blocks {
				for _, in := range blk.Instrs {
					call, ok := in.(*ssa.Call)
					if !ok {
						continue
					}
					if bi, ok := call.Call.Value.(*ssa.Builtin); !ok || bi.Name() != "len" {
						continue
					}
					x := call.Call.Args[0]
					if s.loopInvariant(x, lp) {
						bounds = append(bounds, s.lenOf(x).scale(-1).plus(-1))
					}
				}
			}
			for _, b := range bounds {
				allL := true
				for _, p := range lp.latches {
					fs, dq := s.factsAt(p, len(p.Instrs))
					// ... when the loop goes round again: the condition of the back edge holds (`for range k` loops
					// test at the latch)
					ef, eq := s.edgeFacts(p, lp.header)
					fs = append(fs, ef...)
					dq = append(dq, eq...)
					if !s.entails(fs, dq, le(b, c.at(-1))) {
						allL = false
						break
					}
				}
				if allL {
					bounded = true
					break
				}
			}
			if bounded {
				found = c.desc
				break
			}
		}
		out = append(out, LoopRes{Fn: s.f, Header: lp.header, Ranked: found != "", By: found})
	}
	return
}
