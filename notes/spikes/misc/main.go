// Spike: remaining idiom / table rules: R11.3, R11.5, R12.2, R04.3, R04.4, R01.2,
// R19.2, R10.2, R02.1/R15.2.
package main

import (
	"fmt"
	"go/ast"
	"go/constant"
	"go/token"
	"go/types"
	"os"
	"sort"
	"strings"

	"golang.org/x/tools/go/packages"
	"golang.org/x/tools/go/ssa"
	"golang.org/x/tools/go/ssa/ssautil"
)

const mod = "github.com/gabriel-vasile/mimetype"

var prog *ssa.Program
var findings []string
var examined int

func pos(p token.Pos) string {
	q := prog.Fset.Position(p)
	return fmt.Sprintf("%s:%d", q.Filename[strings.LastIndex(q.Filename, "/")+1:], q.Line)
}
func bad(format string, a ...interface{}) { findings = append(findings, fmt.Sprintf(format, a...)) }

func callee(c *ssa.Call) string {
	if f := c.Call.StaticCallee(); f != nil {
		return f.String()
	}
	return ""
}

// dominatedByEdge: is blk dominated by the edge on which call `name`(...) returned `val`?
func dominatedByCallEdge(blk *ssa.BasicBlock, name string, val bool) bool {
	for d := blk; d != nil; d = d.Idom() {
		if len(d.Preds) != 1 {
			continue
		}
		p := d.Preds[0]
		iff, ok := p.Instrs[len(p.Instrs)-1].(*ssa.If)
		if !ok {
			continue
		}
		cond := iff.Cond
		neg := false
		if u, ok := cond.(*ssa.UnOp); ok && u.Op == token.NOT {
			cond, neg = u.X, true
		}
		c, ok := cond.(*ssa.Call)
		if !ok || callee(c) != name {
			continue
		}
		onTrue := p.Succs[0] == d
		if (onTrue != neg) == val {
			return true
		}
	}
	return false
}

// token grammar of RFC 2045 for type/subtype, lower case
func validName(s string) bool {
	parts := strings.Split(s, "/")
	if len(parts) != 2 {
		return false
	}
	for _, p := range parts {
		if p == "" {
			return false
		}
		for _, r := range p {
			if r <= ' ' || r >= 0x7f || strings.ContainsRune(`()<>@,;:\"/[]?=`, r) || (r >= 'A' && r <= 'Z') {
				return false
			}
		}
	}
	return true
}

func main() {
	dir := "/repo"
	if d := os.Getenv("REPO"); d != "" {
		dir = d
	}
	cfg := &packages.Config{Mode: packages.LoadAllSyntax, Dir: dir, Tests: false}
	pkgs, err := packages.Load(cfg, "./...")
	if err != nil || packages.PrintErrors(pkgs) > 0 {
		os.Exit(1)
	}
	var spkgs []*ssa.Package
	prog, spkgs = ssautil.AllPackages(pkgs, ssa.InstantiateGenerics)
	prog.Build()
	sp := map[string]*ssa.Package{}
	pp := map[string]*packages.Package{}
	for i, p := range pkgs {
		sp[p.PkgPath] = spkgs[i]
		pp[p.PkgPath] = p
	}
	cs := sp[mod+"/internal/charset"]
	js := sp[mod+"/internal/json"]

	// ---- R11.3: every return "utf-8" in the plain sniffer is under utf8.Valid==true or ascii==true
	{
		f := cs.Func("FromPlain")
		for _, b := range f.Blocks {
			r, ok := b.Instrs[len(b.Instrs)-1].(*ssa.Return)
			if !ok {
				continue
			}
			k, ok := r.Results[0].(*ssa.Const)
			if !ok || k.Value == nil || constant.StringVal(k.Value) != "utf-8" {
				continue
			}
			examined++
			if !dominatedByCallEdge(b, "unicode/utf8.Valid", true) && !dominatedByCallEdge(b, cs.Func("ascii").String(), true) {
				bad("R11.3 FromPlain: return \"utf-8\" at %s is not conditional on UTF-8 validation or the ASCII test", pos(r.Pos()))
			}
		}
		// ---- R11.5: a re-slice feeding utf8.Valid must be under FullRune == false
		var validArg ssa.Value
		for _, b := range f.Blocks {
			for _, in := range b.Instrs {
				if c, ok := in.(*ssa.Call); ok && callee(c) == "unicode/utf8.Valid" {
					validArg = c.Call.Args[0]
				}
			}
		}
		var visit func(v ssa.Value, seen map[ssa.Value]bool)
		visit = func(v ssa.Value, seen map[ssa.Value]bool) {
			if seen[v] {
				return
			}
			seen[v] = true
			switch x := v.(type) {
			case *ssa.Phi:
				for _, e := range x.Edges {
					visit(e, seen)
				}
			case *ssa.Slice:
				if x.High != nil || x.Low != nil {
					examined++
					if !dominatedByCallEdge(x.Block(), "unicode/utf8.FullRune", false) {
						bad("R11.5 FromPlain: the buffer validated as UTF-8 is shortened at %s without checking that the dropped tail is an incomplete rune", pos(x.Pos()))
					}
				}
				visit(x.X, seen)
			}
		}
		if validArg != nil {
			visit(validArg, map[ssa.Value]bool{})
		}
	}
	// ---- R12.2: xml.Decoder has CharsetReader stored before RawToken/Token
	for _, f := range []*ssa.Function{cs.Func("fromXML")} {
		for _, b := range f.Blocks {
			for _, in := range b.Instrs {
				c, ok := in.(*ssa.Call)
				if !ok || (callee(c) != "(*encoding/xml.Decoder).RawToken" && callee(c) != "(*encoding/xml.Decoder).Token") {
					continue
				}
				examined++
				dec := c.Call.Args[0]
				stored := false
				for _, ref := range *dec.Referrers() {
					fa, ok := ref.(*ssa.FieldAddr)
					if !ok {
						continue
					}
					fld := fa.X.Type().Underlying().(*types.Pointer).Elem().Underlying().(*types.Struct).Field(fa.Field)
					if fld.Name() != "CharsetReader" {
						continue
					}
					for _, r2 := range *fa.Referrers() {
						if st, ok := r2.(*ssa.Store); ok && (st.Block() == c.Block() || st.Block().Dominates(c.Block())) {
							if k, isC := st.Val.(*ssa.Const); !isC || k.Value != nil {
								stored = true
							}
						}
					}
				}
				if !stored {
					bad("R12.2 %s: %s at %s on a decoder without CharsetReader: any declared encoding other than UTF-8 makes it fail and the declaration is lost", f.Name(), c.Call.StaticCallee().Name(), pos(c.Pos()))
				}
			}
		}
	}
	// ---- R04.3 / R04.4 / R01.2: pools
	all := ssautil.AllFunctions(prog)
	var modFns []*ssa.Function
	for f := range all {
		pk := f.Pkg
		for p := f; pk == nil && p.Parent() != nil; p = p.Parent() {
			pk = p.Parent().Pkg
		}
		if pk != nil && strings.HasPrefix(pk.Pkg.Path(), mod) && f.Blocks != nil {
			modFns = append(modFns, f)
		}
	}
	sort.Slice(modFns, func(i, j int) bool { return modFns[i].String() < modFns[j].String() })
	for _, f := range modFns {
		for _, b := range f.Blocks {
			for _, in := range b.Instrs {
				c, ok := in.(*ssa.Call)
				if !ok || callee(c) != "(*sync.Pool).Get" {
					continue
				}
				examined++
				pool, _ := c.Call.Args[0].(*ssa.Global)
				// type assertion on the result
				var obj ssa.Value
				for _, r := range *c.Referrers() {
					if ta, ok := r.(*ssa.TypeAssert); ok {
						obj = ta
						// R01.2 agreement with New
						newT := poolNewType(pool)
						if newT == nil || !types.Identical(newT, ta.AssertedType) {
							bad("R01.2 %s: pool %s yields %v but is asserted to %v at %s", f.Name(), pool.Name(), newT, ta.AssertedType, pos(ta.Pos()))
						}
					}
				}
				if obj == nil {
					bad("R04.3 %s: pooled value at %s is not typed", f.Name(), pos(c.Pos()))
					continue
				}
				// first real use must be the reset routine
				var uses []ssa.Instruction
				for _, r := range *obj.Referrers() {
					switch r.(type) {
					case *ssa.DebugRef:
					default:
						uses = append(uses, r)
					}
				}
				resetSeen := false
				for _, u := range uses {
					if call, ok := u.(*ssa.Call); ok && call.Call.Args[0] == obj {
						n := ""
						if cal := call.Call.StaticCallee(); cal != nil {
							n = cal.Name()
						}
						if strings.EqualFold(n, "reset") {
							resetSeen = true
							// it must dominate every other non-deferred use
							for _, o := range uses {
								if o == u {
									continue
								}
								if _, isStore := o.(*ssa.Store); isStore {
									continue // spill into a closure cell / local
								}
								if _, isRet := o.(*ssa.Return); isRet {
									continue // wrapper handing the reset object out
								}
								ob := o.Block()
								if !(call.Block() == ob && before(call, o) || call.Block().Dominates(ob) && call.Block() != ob) {
									bad("R04.3 %s: pooled value used at %s before it is reset", f.Name(), pos(o.Pos()))
								}
							}
						}
					}
				}
				if !resetSeen {
					// the value may be spilled to a closure cell first: look at loads of that cell
					spilled := false
					for _, u := range uses {
						if st, ok := u.(*ssa.Store); ok {
							if a, ok := st.Addr.(*ssa.Alloc); ok {
								for _, r := range *a.Referrers() {
									if ld, ok := r.(*ssa.UnOp); ok {
										for _, r2 := range *ld.Referrers() {
											if call, ok := r2.(*ssa.Call); ok && call.Call.StaticCallee() != nil && strings.EqualFold(call.Call.StaticCallee().Name(), "reset") {
												spilled = true
												// every other load-use in this function must come after
												for _, r3 := range *a.Referrers() {
													if ld2, ok := r3.(*ssa.UnOp); ok && ld2 != ld && ld2.Parent() == f {
														if !(call.Block() == ld2.Block() && before(call, ld2) || (call.Block().Dominates(ld2.Block()) && call.Block() != ld2.Block())) {
															bad("R04.3 %s: pooled value used at %s before it is reset", f.Name(), pos(ld2.Pos()))
														}
													}
												}
											}
										}
									}
								}
							}
						}
					}
					if !spilled {
						bad("R04.3 %s: value taken from pool %s at %s is never reset before use", f.Name(), pool.Name(), pos(c.Pos()))
					}
				}
			}
		}
	}
	// R04.4 reset exhaustiveness for the scanner state
	{
		st := js.Type("parserState").Type().(*types.Named)
		stt := st.Underlying().(*types.Struct)
		written := map[int][]string{}
		reset := map[int]bool{}
		for _, f := range modFns {
			for _, b := range f.Blocks {
				for _, in := range b.Instrs {
					s, ok := in.(*ssa.Store)
					if !ok {
						continue
					}
					fa, ok := s.Addr.(*ssa.FieldAddr)
					if !ok {
						continue
					}
					pt, ok := fa.X.Type().Underlying().(*types.Pointer)
					if !ok || !types.Identical(pt.Elem(), st) {
						continue
					}
					if _, fresh := fa.X.(*ssa.Alloc); fresh {
						continue // construction
					}
					if strings.EqualFold(f.Name(), "reset") {
						reset[fa.Field] = true
					} else {
						written[fa.Field] = append(written[fa.Field], f.Name())
					}
				}
			}
		}
		for i := 0; i < stt.NumFields(); i++ {
			if len(written[i]) > 0 {
				examined++
				if !reset[i] {
					bad("R04.4 field %s of the pooled scanner state is written by %v but not assigned in reset", stt.Field(i).Name(), uniq(written[i]))
				}
			}
		}
	}
	// ---- table rules from constants: names, aliases, ODF signatures, queries
	{
		top := pp[mod]
		info := top.TypesInfo
		type nd struct {
			name, mime string
			det        types.Object
			aliases    []string
		}
		var nodes []nd
		for _, f := range top.Syntax {
			ast.Inspect(f, func(n ast.Node) bool {
				vs, ok := n.(*ast.ValueSpec)
				if !ok || len(vs.Names) != 1 || len(vs.Values) != 1 {
					return true
				}
				call, ok := vs.Values[0].(*ast.CallExpr)
				if !ok {
					return true
				}
				x := nd{name: vs.Names[0].Name}
				if sel, ok := call.Fun.(*ast.SelectorExpr); ok {
					if inner, ok := sel.X.(*ast.CallExpr); ok && sel.Sel.Name == "alias" {
						for _, a := range call.Args {
							x.aliases = append(x.aliases, constant.StringVal(info.Types[a].Value))
						}
						call = inner
					}
				}
				if id, ok := call.Fun.(*ast.Ident); !ok || id.Name != "newMIME" {
					return true
				}
				x.mime = constant.StringVal(info.Types[call.Args[0]].Value)
				if s, ok := call.Args[2].(*ast.SelectorExpr); ok {
					x.det = info.Uses[s.Sel]
				}
				nodes = append(nodes, x)
				return true
			})
		}
		nAlias := 0
		for _, n := range nodes {
			examined++
			if !validName(n.mime) {
				bad("R02.1 node %s: %q is not a lower-case type/subtype", n.name, n.mime)
			}
			for _, a := range n.aliases {
				nAlias++
				if !validName(a) {
					bad("R15.2 node %s: alias %q is not normalised", n.name, a)
				}
			}
		}
		fmt.Printf("names checked: %d nodes, %d aliases\n", len(nodes), nAlias)
		// R19.2: offset(sig,30) detectors: sig == "mimetype"+mime
		mp := pp[mod+"/internal/magic"]
		sigOf := map[string]string{}
		offOf := map[string]int64{}
		for _, f := range mp.Syntax {
			ast.Inspect(f, func(n ast.Node) bool {
				vs, ok := n.(*ast.ValueSpec)
				if !ok || len(vs.Names) != 1 || len(vs.Values) != 1 {
					return true
				}
				call, ok := vs.Values[0].(*ast.CallExpr)
				if !ok {
					return true
				}
				if id, ok := call.Fun.(*ast.Ident); ok && id.Name == "offset" && len(call.Args) == 2 {
					if conv, ok := call.Args[0].(*ast.CallExpr); ok && len(conv.Args) == 1 {
						if tv := mp.TypesInfo.Types[conv.Args[0]]; tv.Value != nil && tv.Value.Kind() == constant.String {
							sigOf[vs.Names[0].Name] = constant.StringVal(tv.Value)
							o, _ := constant.Int64Val(mp.TypesInfo.Types[call.Args[1]].Value)
							offOf[vs.Names[0].Name] = o
						}
					}
				}
				return true
			})
		}
		k := 0
		for _, n := range nodes {
			if n.det == nil {
				continue
			}
			sig, ok := sigOf[n.det.Name()]
			if !ok || !strings.HasPrefix(sig, "mimetype") {
				continue
			}
			k++
			examined++
			if sig != "mimetype"+n.mime || offOf[n.det.Name()] != 30 {
				bad("R19.2 node %s (%s): signature %q at offset %d does not spell \"mimetype\" + its registered type", n.name, n.mime, sig, offOf[n.det.Name()])
			}
		}
		fmt.Println("zip-stored-mimetype detectors checked:", k)
	}
	sort.Strings(findings)
	fmt.Printf("instances examined: %d, findings: %d\n", examined, len(findings))
	for _, x := range findings {
		fmt.Println("   ", x)
	}
}

func before(a, b ssa.Instruction) bool {
	for _, in := range a.Block().Instrs {
		if in == a {
			return true
		}
		if in == b {
			return false
		}
	}
	return false
}

func uniq(xs []string) []string {
	m := map[string]bool{}
	var out []string
	for _, x := range xs {
		if !m[x] {
			m[x] = true
			out = append(out, x)
		}
	}
	sort.Strings(out)
	return out
}

// poolNewType: the dynamic type returned by the pool's New function (composite literal of sync.Pool in init).
func poolNewType(pool *ssa.Global) types.Type {
	if pool == nil {
		return nil
	}
	init := pool.Pkg.Func("init")
	for _, b := range init.Blocks {
		for _, in := range b.Instrs {
			st, ok := in.(*ssa.Store)
			if !ok {
				continue
			}
			fa, ok := st.Addr.(*ssa.FieldAddr)
			if !ok || fa.X != ssa.Value(pool) {
				continue
			}
			var fn *ssa.Function
			switch v := st.Val.(type) {
			case *ssa.Function:
				fn = v
			case *ssa.MakeClosure:
				fn = v.Fn.(*ssa.Function)
			}
			if fn == nil {
				continue
			}
			for _, bb := range fn.Blocks {
				if r, ok := bb.Instrs[len(bb.Instrs)-1].(*ssa.Return); ok {
					if mi, ok := r.Results[0].(*ssa.MakeInterface); ok {
						return mi.X.Type()
					}
				}
			}
		}
	}
	return nil
}
