// Spike: validate "read-only on its byte-slice arguments" for external callees against library source.
package main

import (
	"fmt"
	"go/token"
	"go/types"
	"os"
	"sort"
	"strings"

	"golang.org/x/tools/go/packages"
	"golang.org/x/tools/go/ssa"
	"golang.org/x/tools/go/ssa/ssautil"
)

type res struct {
	writes bool
	leaves map[string]bool
	why    string
}

var memo = map[*ssa.Function]*res{}

// fromParam: does address/slice value v derive from parameter #k of f (without passing through a fresh allocation)?
func fromParam(v ssa.Value, depth int) (int, bool) {
	if depth > 12 {
		return -1, false
	}
	switch x := v.(type) {
	case *ssa.Parameter:
		for i, p := range x.Parent().Params {
			if p == x {
				return i, true
			}
		}
	case *ssa.IndexAddr:
		return fromParam(x.X, depth+1)
	case *ssa.Slice:
		return fromParam(x.X, depth+1)
	case *ssa.FieldAddr:
		return fromParam(x.X, depth+1)
	case *ssa.ChangeType:
		return fromParam(x.X, depth+1)
	case *ssa.Convert:
		// string <-> []byte conversions copy
		return -1, false
	case *ssa.Phi:
		for _, e := range x.Edges {
			if e == v {
				continue
			}
			if k, ok := fromParam(e, depth+3); ok {
				return k, true
			}
		}
	case *ssa.UnOp:
		if x.Op == token.MUL {
			// loading a slice out of a struct reached from a param (e.g. r.s in bytes.Reader)
			return fromParam(x.X, depth+1)
		}
	}
	return -1, false
}

func isByteSliceOrPtr(t types.Type) bool {
	switch u := t.Underlying().(type) {
	case *types.Slice:
		return true
	case *types.Pointer:
		_ = u
		return true
	}
	return false
}

func analyse(f *ssa.Function) *res {
	if r, ok := memo[f]; ok {
		return r
	}
	r := &res{leaves: map[string]bool{}}
	memo[f] = r
	if f.Blocks == nil {
		r.leaves[f.String()] = true
		return r
	}
	for _, b := range f.Blocks {
		for _, in := range b.Instrs {
			switch x := in.(type) {
			case *ssa.Store:
				if _, ok := fromParam(x.Addr, 0); ok {
					// writing the header of a local? Addr deriving from a param pointer/slice element
					r.writes = true
					r.why = fmt.Sprintf("store at %s", f.Prog.Fset.Position(x.Pos()))
				}
			case *ssa.Call:
				if bi, ok := x.Call.Value.(*ssa.Builtin); ok {
					if bi.Name() == "copy" || bi.Name() == "append" {
						if _, ok := fromParam(x.Call.Args[0], 0); ok {
							r.writes = true
							r.why = fmt.Sprintf("%s into a parameter at %s", bi.Name(), f.Prog.Fset.Position(x.Pos()))
						}
					}
					continue
				}
				g := x.Call.StaticCallee()
				passes := false
				for _, a := range x.Call.Args {
					if isByteSliceOrPtr(a.Type()) {
						if _, ok := fromParam(a, 0); ok {
							passes = true
						}
					}
				}
				if !passes {
					continue
				}
				if g == nil {
					r.leaves["dynamic call in "+f.String()] = true
					continue
				}
				sub := analyse(g)
				if sub.writes {
					r.writes = true
					r.why = g.String() + ": " + sub.why
				}
				for l := range sub.leaves {
					r.leaves[l] = true
				}
			}
		}
	}
	return r
}

func main() {
	cfg := &packages.Config{Mode: packages.LoadAllSyntax, Dir: "/repo", Tests: false}
	pkgs, err := packages.Load(cfg, "./...")
	if err != nil || packages.PrintErrors(pkgs) > 0 {
		os.Exit(1)
	}
	prog, _ := ssautil.AllPackages(pkgs, ssa.InstantiateGenerics)
	prog.Build()
	want := []string{"bytes.Equal", "bytes.HasPrefix", "bytes.Index", "bytes.IndexByte", "bytes.Contains", "bytes.Cut", "bytes.Trim", "bytes.TrimSpace",
		"unicode/utf8.Valid", "(encoding/binary.littleEndian).Uint32", "(encoding/binary.bigEndian).Uint32", "(encoding/binary.bigEndian).Uint16",
		"bytes.NewReader", "(*bytes.Reader).Read", "io.ReadFull", "io.ReadAll"}
	byName := map[string]*ssa.Function{}
	for f := range ssautil.AllFunctions(prog) {
		byName[f.String()] = f
	}
	for _, n := range want {
		f := byName[n]
		if f == nil {
			fmt.Println(n, ": not found")
			continue
		}
		r := analyse(f)
		var ls []string
		for l := range r.leaves {
			ls = append(ls, l)
		}
		sort.Strings(ls)
		status := "read-only"
		if r.writes {
			status = "WRITES (" + r.why + ")"
		}
		fmt.Printf("%-45s %s  leaves=%s\n", n, status, strings.Join(ls, ","))
	}
}
