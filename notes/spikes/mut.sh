#!/bin/bash
# usage: mut.sh name file 'python-replace-old' 'new'
name=$1; file=$2; old=$3; new=$4
rm -rf /tmp/mut && cp -r /repo /tmp/mut
python3 - "$file" "$old" "$new" <<'PY'
import sys
f,old,new=sys.argv[1:4]
p='/tmp/mut/'+f; s=open(p).read()
assert s.count(old)>=1, "pattern not found"
s=s.replace(old,new,1); open(p,'w').write(s)
PY
(cd /tmp/mut && go build ./... 2>&1 | head -3)
echo "== $name"; REPO=/tmp/mut /tmp/proto/e2bin 2>&1 | grep -v "summary iteration" | grep -v "parser.go:273:27\|parser.go:371:27\|parser.go:376:27" | tail -4
