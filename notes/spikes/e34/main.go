// Spike E3/E4: lockset on the tree mutex, atomic-only access to the limit,
// write-once node fields, no in-place append on shared slices, fresh results.
package main

import (
	"fmt"
	"go/token"
	"go/types"
	"os"
	"sort"
	"strings"

	"golang.org/x/tools/go/packages"
	"golang.org/x/tools/go/ssa"
	"golang.org/x/tools/go/ssa/ssautil"
)

const mod = "github.com/gabriel-vasile/mimetype"

var prog *ssa.Program

func pos(p token.Pos) string {
	q := prog.Fset.Position(p)
	return fmt.Sprintf("%s:%d", q.Filename[strings.LastIndex(q.Filename, "/")+1:], q.Line)
}

type origin int

const (
	oFresh origin = iota
	oParam
	oGlobal
	oCallFresh
	oUnknown
)

type ctx struct {
	pkg        *ssa.Package
	nodeT      *types.Named
	mu         *ssa.Global
	limit      *ssa.Global
	freshRet   map[*ssa.Function]bool
	childField int
}

func (c *ctx) isNodePtr(t types.Type) bool {
	p, ok := t.Underlying().(*types.Pointer)
	return ok && types.Identical(p.Elem(), c.nodeT)
}

// org classifies where a pointer-like value comes from.
func (c *ctx) org(v ssa.Value, depth int) origin {
	if depth > 10 {
		return oUnknown
	}
	switch x := v.(type) {
	case *ssa.Alloc:
		return oFresh
	case *ssa.MakeSlice, *ssa.MakeMap:
		return oFresh
	case *ssa.Parameter, *ssa.FreeVar:
		return oParam
	case *ssa.Global:
		return oGlobal
	case *ssa.FieldAddr:
		return c.org(x.X, depth+1)
	case *ssa.IndexAddr:
		return c.org(x.X, depth+1)
	case *ssa.Slice:
		return c.org(x.X, depth+1)
	case *ssa.UnOp:
		if x.Op == token.MUL {
			o := c.org(x.X, depth+1)
			if o == oFresh {
				// loading a pointer out of a fresh object: what was stored there? unknown in general
				return oUnknown
			}
			return o
		}
	case *ssa.Call:
		if f := x.Call.StaticCallee(); f != nil && c.freshRet[f] {
			return oCallFresh
		}
		return oUnknown
	case *ssa.Phi:
		worst := oFresh
		for _, e := range x.Edges {
			if e == ssa.Value(x) {
				continue
			}
			o := c.org(e, depth+2)
			if o == oCallFresh {
				o = oFresh
			}
			if o > worst {
				worst = o
			}
		}
		return worst
	case *ssa.ChangeType:
		return c.org(x.X, depth+1)
	}
	return oUnknown
}

// returnsFresh: every return operand is an allocation or a call of a returns-fresh function.
func (c *ctx) computeFreshRet(fs []*ssa.Function) {
	c.freshRet = map[*ssa.Function]bool{}
	for _, f := range fs {
		if f.Signature.Results().Len() >= 1 && c.isNodePtr(f.Signature.Results().At(0).Type()) {
			c.freshRet[f] = true // optimistic
		}
	}
	for changed := true; changed; {
		changed = false
		for _, f := range fs {
			if !c.freshRet[f] {
				continue
			}
			for _, b := range f.Blocks {
				r, ok := b.Instrs[len(b.Instrs)-1].(*ssa.Return)
				if !ok {
					continue
				}
				v := r.Results[0]
				// look through defer-spilled result: load of local alloc stored once per path
				if u, ok := v.(*ssa.UnOp); ok && u.Op == token.MUL {
					if a, ok := u.X.(*ssa.Alloc); ok {
						okAll := true
						for _, ref := range *a.Referrers() {
							if st, ok := ref.(*ssa.Store); ok && st.Addr == ssa.Value(a) {
								o := c.org(st.Val, 0)
								if o != oFresh && o != oCallFresh {
									okAll = false
								}
							}
						}
						if okAll {
							continue
						}
					}
				}
				o := c.org(v, 0)
				if o != oFresh && o != oCallFresh {
					c.freshRet[f] = false
					changed = true
				}
			}
		}
	}
}

type lockState int // 0 none, 1 R, 2 W

func (c *ctx) muCall(in ssa.Instruction) (name string, deferred bool) {
	var cc *ssa.CallCommon
	switch x := in.(type) {
	case *ssa.Call:
		cc = &x.Call
	case *ssa.Defer:
		cc, deferred = &x.Call, true
	default:
		return "", false
	}
	f := cc.StaticCallee()
	if f == nil || !strings.HasPrefix(f.String(), "(*sync.RWMutex).") {
		return "", false
	}
	// receiver must be a load of the package mutex
	if u, ok := cc.Args[0].(*ssa.UnOp); ok && u.Op == token.MUL && u.X == ssa.Value(c.mu) {
		return f.Name(), deferred
	}
	return "other-mutex", deferred
}

type access struct {
	need lockState
	have lockState
	what string
	pos  token.Pos
}

func main() {
	dir := "/repo"
	if d := os.Getenv("REPO"); d != "" {
		dir = d
	}
	cfg := &packages.Config{Mode: packages.LoadAllSyntax, Dir: dir, Tests: false}
	pkgs, err := packages.Load(cfg, "./...")
	if err != nil || packages.PrintErrors(pkgs) > 0 {
		os.Exit(1)
	}
	var spkgs []*ssa.Package
	prog, spkgs = ssautil.AllPackages(pkgs, ssa.InstantiateGenerics)
	prog.Build()
	c := &ctx{}
	for i, p := range pkgs {
		if p.PkgPath == mod {
			c.pkg = spkgs[i]
		}
	}
	c.nodeT = c.pkg.Type("MIME").Type().(*types.Named)
	// the mutex: the unique package-level *sync.RWMutex ; the limit: the uint32 passed to atomic functions
	for _, m := range c.pkg.Members {
		if g, ok := m.(*ssa.Global); ok {
			if strings.HasSuffix(g.Type().String(), "**sync.RWMutex") {
				c.mu = g
			}
		}
	}
	st := c.nodeT.Underlying().(*types.Struct)
	for i := 0; i < st.NumFields(); i++ {
		if sl, ok := st.Field(i).Type().Underlying().(*types.Slice); ok && c.isNodePtr(sl.Elem()) {
			c.childField = i
		}
	}
	fmt.Println("mutex:", c.mu.Name(), " guarded field:", st.Field(c.childField).Name())
	var fs []*ssa.Function
	for f := range ssautil.AllFunctions(prog) {
		pk := f.Pkg
		for p := f; pk == nil && p.Parent() != nil; p = p.Parent() {
			pk = p.Parent().Pkg
		}
		if pk == c.pkg && f.Blocks != nil {
			fs = append(fs, f)
		}
	}
	sort.Slice(fs, func(i, j int) bool { return fs[i].String() < fs[j].String() })
	c.computeFreshRet(fs)
	var fr []string
	for f, ok := range c.freshRet {
		if ok {
			fr = append(fr, f.Name())
		}
	}
	sort.Strings(fr)
	fmt.Println("returns-fresh:", fr)

	// ---- R06.1 atomics ----
	for _, m := range c.pkg.Members {
		g, ok := m.(*ssa.Global)
		if !ok {
			continue
		}
		atomicUse, plainUse := 0, 0
		var plain []string
		for _, f := range fs {
			for _, b := range f.Blocks {
				for _, in := range b.Instrs {
					for _, op := range in.Operands(nil) {
						if *op != ssa.Value(g) {
							continue
						}
						if call, ok := in.(*ssa.Call); ok && call.Call.StaticCallee() != nil && strings.HasPrefix(call.Call.StaticCallee().String(), "sync/atomic.") {
							atomicUse++
						} else if f.Name() != "init" {
							plainUse++
							plain = append(plain, f.Name()+"@"+pos(in.Pos()))
						}
					}
				}
			}
		}
		if atomicUse > 0 {
			fmt.Printf("R06.1 %s: %d atomic uses, %d plain uses %v\n", g.Name(), atomicUse, plainUse, plain)
		}
	}

	// ---- lockset per function ----
	requires := map[*ssa.Function]lockState{}
	type site struct {
		f   *ssa.Function
		acc access
	}
	var findings []string
	n := 0
	for round := 0; round < 6; round++ {
		changed := false
		for _, f := range fs {
			in := map[*ssa.BasicBlock]lockState{f.Blocks[0]: 0}
			seen := map[*ssa.BasicBlock]bool{}
			work := []*ssa.BasicBlock{f.Blocks[0]}
			need := lockState(0)
			for len(work) > 0 {
				b := work[0]
				work = work[1:]
				if seen[b] {
					continue
				}
				seen[b] = true
				cur := in[b]
				for _, ins := range b.Instrs {
					if name, deferred := c.muCall(ins); name != "" {
						switch {
						case name == "RLock":
							if cur != 0 && round == 5 {
								findings = append(findings, fmt.Sprintf("R06.6 %s: acquires the lock at %s while holding it", f.Name(), pos(ins.Pos())))
							}
							cur = 1
						case name == "Lock":
							if cur != 0 && round == 5 {
								findings = append(findings, fmt.Sprintf("R06.6 %s: acquires the lock at %s while holding it", f.Name(), pos(ins.Pos())))
							}
							cur = 2
						case (name == "RUnlock" || name == "Unlock") && !deferred:
							cur = 0
						}
						continue
					}
					var acc *access
					switch x := ins.(type) {
					case *ssa.UnOp: // load of guarded field
						if fa, ok := x.X.(*ssa.FieldAddr); ok && x.Op == token.MUL && c.isNodePtr(fa.X.Type()) && fa.Field == c.childField {
							if o := c.org(fa.X, 0); o != oFresh && o != oCallFresh {
								acc = &access{need: 1, what: "read of ." + st.Field(fa.Field).Name(), pos: x.Pos()}
							}
						}
					case *ssa.Store:
						if fa, ok := x.Addr.(*ssa.FieldAddr); ok && c.isNodePtr(fa.X.Type()) {
							o := c.org(fa.X, 0)
							if o != oFresh && o != oCallFresh {
								if fa.Field == c.childField {
									acc = &access{need: 2, what: "store to ." + st.Field(fa.Field).Name(), pos: x.Pos()}
								} else if round == 5 {
									// R06.3 write-once field on a non-fresh node: only legal in init-only functions
									n++
									if !initOnly(f, fs) {
										findings = append(findings, fmt.Sprintf("R06.3 %s: store to write-once field .%s of a shared node at %s", f.Name(), st.Field(fa.Field).Name(), pos(x.Pos())))
									}
								}
							}
						}
					case *ssa.Call:
						if bi, ok := x.Call.Value.(*ssa.Builtin); ok && bi.Name() == "append" && round == 5 {
							n++
							o := c.org(x.Call.Args[0], 0)
							if o != oFresh && o != oCallFresh && cur != 2 && !initOnly(f, fs) {
								findings = append(findings, fmt.Sprintf("R06.4 %s: append at %s may write into a shared backing array (first operand is not fresh, write lock not held)", f.Name(), pos(x.Pos())))
							}
						}
						if g := x.Call.StaticCallee(); g != nil && requires[g] > 0 {
							acc = &access{need: requires[g], what: "call of " + g.Name(), pos: x.Pos()}
						}
					}
					if acc != nil {
						if round == 5 {
							n++
						}
						if cur < acc.need {
							if acc.need > need {
								need = acc.need
							}
						}
					}
				}
				for _, s := range b.Succs {
					if old, ok := in[s]; ok && old != cur && round == 5 {
						findings = append(findings, fmt.Sprintf("E4 undecided %s: lock state differs at join b%d", f.Name(), s.Index))
					}
					if _, ok := in[s]; !ok {
						in[s] = cur
					}
					work = append(work, s)
				}
			}
			if requires[f] != need {
				requires[f] = need
				changed = true
			}
		}
		if !changed && round < 5 {
			round = 4 // jump to the reporting round
		}
	}
	var req []string
	for f, r := range requires {
		if r > 0 {
			req = append(req, fmt.Sprintf("%s:%d", f.Name(), r))
			exported := f.Object() != nil && f.Object().Exported()
			if exported {
				findings = append(findings, fmt.Sprintf("R06.2 exported %s touches the tree without holding the lock (needs %d)", f.Name(), r))
			}
		}
	}
	sort.Strings(req)
	fmt.Println("requires-lock summaries (1=R,2=W):", req)
	// R06.7 / R14.3: what detection hands out is fresh
	for _, name := range []string{"match"} {
		for _, f := range fs {
			if f.Name() == name {
				fmt.Printf("R06.7 %s returns fresh objects: %v\n", name, c.freshRet[f])
			}
		}
	}
	sort.Strings(findings)
	fmt.Printf("instances examined: %d, findings: %d\n", n, len(findings))
	for _, x := range findings {
		fmt.Println("   ", x)
	}
}

// initOnly: all (transitive) callers of f inside the package are the package initialiser.
func initOnly(f *ssa.Function, fs []*ssa.Function) bool {
	callers := map[*ssa.Function][]*ssa.Function{}
	for _, g := range fs {
		for _, b := range g.Blocks {
			for _, in := range b.Instrs {
				if c, ok := in.(*ssa.Call); ok {
					if h := c.Call.StaticCallee(); h != nil {
						callers[h] = append(callers[h], g)
					}
				}
				for _, op := range in.Operands(nil) {
					if h, ok := (*op).(*ssa.Function); ok {
						if c, isCall := in.(*ssa.Call); !isCall || c.Call.Value != ssa.Value(h) {
							callers[h] = append(callers[h], nil) // used as a value: unknown callers
						}
					}
				}
			}
		}
	}
	if f.Object() != nil && f.Object().Exported() {
		return false
	}
	seen := map[*ssa.Function]bool{}
	var rec func(g *ssa.Function) bool
	rec = func(g *ssa.Function) bool {
		if g == nil {
			return false
		}
		if g.Name() == "init" && g.Synthetic != "" {
			return true
		}
		if seen[g] {
			return true
		}
		seen[g] = true
		if g.Object() != nil && g.Object().Exported() {
			return false
		}
		if len(callers[g]) == 0 {
			return false
		}
		for _, h := range callers[g] {
			if !rec(h) {
				return false
			}
		}
		return true
	}
	return rec(f)
}
