// Spike E5 (finite-domain evaluation of source predicates) + constant-table rules.
package main

import (
	"fmt"
	"go/ast"
	"go/constant"
	"go/token"
	"go/types"
	"os"
	"strings"

	"golang.org/x/tools/go/packages"
	"golang.org/x/tools/go/ssa"
	"golang.org/x/tools/go/ssa/ssautil"
)

const mod = "github.com/gabriel-vasile/mimetype"

type env map[ssa.Value]constant.Value

type evaluator struct {
	env    env
	tables map[*ssa.Global][]constant.Value // constant arrays
	prev   *ssa.BasicBlock
	undec  string
}

func (e *evaluator) val(v ssa.Value) (constant.Value, bool) {
	if c, ok := e.env[v]; ok {
		return c, true
	}
	switch x := v.(type) {
	case *ssa.Const:
		if x.Value != nil {
			return x.Value, true
		}
	case *ssa.BinOp:
		a, ok1 := e.val(x.X)
		b, ok2 := e.val(x.Y)
		if !ok1 || !ok2 {
			return nil, false
		}
		switch x.Op {
		case token.EQL, token.NEQ, token.LSS, token.LEQ, token.GTR, token.GEQ:
			return constant.MakeBool(constant.Compare(a, x.Op, b)), true
		case token.ADD, token.SUB, token.MUL, token.AND, token.OR, token.XOR:
			return wrap(constant.BinaryOp(a, x.Op, b), x.Type()), true
		}
	case *ssa.UnOp:
		switch x.Op {
		case token.NOT:
			if a, ok := e.val(x.X); ok {
				return constant.MakeBool(!constant.BoolVal(a)), true
			}
		case token.MUL:
			// load of table[idx]
			if ia, ok := x.X.(*ssa.IndexAddr); ok {
				if g, ok := ia.X.(*ssa.Global); ok {
					if tb, ok := e.tables[g]; ok {
						if i, ok := e.val(ia.Index); ok {
							n, _ := constant.Int64Val(i)
							if n >= 0 && int(n) < len(tb) {
								return tb[n], true
							}
						}
					}
				}
			}
		}
	case *ssa.Convert:
		if a, ok := e.val(x.X); ok && a.Kind() == constant.Int {
			return wrap(a, x.Type()), true
		}
	case *ssa.Phi:
		if e.prev != nil && x.Block() != nil {
			for i, p := range x.Block().Preds {
				if p == e.prev {
					return e.val(x.Edges[i])
				}
			}
		}
	}
	return nil, false
}

func wrap(c constant.Value, t types.Type) constant.Value {
	b, ok := t.Underlying().(*types.Basic)
	if !ok || c.Kind() != constant.Int {
		return c
	}
	v, _ := constant.Int64Val(c)
	switch b.Kind() {
	case types.Uint8:
		return constant.MakeInt64(int64(uint8(v)))
	case types.Int8:
		return constant.MakeInt64(int64(int8(v)))
	case types.Uint16:
		return constant.MakeInt64(int64(uint16(v)))
	case types.Uint32:
		return constant.MakeInt64(int64(uint32(v)))
	case types.Int32:
		return constant.MakeInt64(int64(int32(v)))
	}
	return c
}

type exit struct {
	ret   *ssa.Return
	block *ssa.BasicBlock // stop block reached
	from  *ssa.BasicBlock
}

// walk follows the CFG from block b (entered from prev) evaluating branch
// conditions from the environment until a return or a stop block.
func (e *evaluator) walk(b, prev *ssa.BasicBlock, stop func(*ssa.BasicBlock) bool) (exit, bool) {
	for steps := 0; steps < 200; steps++ {
		e.prev = prev
		// phis must be resolved on entry (they refer to prev)
		for _, in := range b.Instrs {
			if ph, ok := in.(*ssa.Phi); ok {
				if v, ok := e.val(ph); ok {
					e.env[ph] = v
				} else {
					delete(e.env, ph)
				}
			}
		}
		switch t := b.Instrs[len(b.Instrs)-1].(type) {
		case *ssa.Return:
			return exit{ret: t, from: prev}, true
		case *ssa.Jump:
			prev, b = b, b.Succs[0]
		case *ssa.If:
			c, ok := e.val(t.Cond)
			if !ok {
				e.undec = fmt.Sprintf("condition %s not evaluable in block %d", t.Cond, b.Index)
				return exit{}, false
			}
			if constant.BoolVal(c) {
				prev, b = b, b.Succs[0]
			} else {
				prev, b = b, b.Succs[1]
			}
		default:
			e.undec = "unexpected terminator"
			return exit{}, false
		}
		if stop != nil && stop(b) {
			return exit{block: b, from: prev}, true
		}
	}
	e.undec = "too many steps"
	return exit{}, false
}

func isConstBool(v ssa.Value, want bool) bool {
	k, ok := v.(*ssa.Const)
	return ok && k.Value != nil && k.Value.Kind() == constant.Bool && constant.BoolVal(k.Value) == want
}

// elemLoadOfRange finds, in f, the load of param[idx] inside a range loop over the parameter.
func elemLoadOfRange(f *ssa.Function, param ssa.Value) (load *ssa.UnOp, idx ssa.Value, header *ssa.BasicBlock) {
	for _, b := range f.Blocks {
		for _, in := range b.Instrs {
			u, ok := in.(*ssa.UnOp)
			if !ok || u.Op != token.MUL {
				continue
			}
			ia, ok := u.X.(*ssa.IndexAddr)
			if !ok || ia.X != param {
				continue
			}
			if bo, ok := ia.Index.(*ssa.BinOp); ok && bo.Op == token.ADD {
				if ph, ok := bo.X.(*ssa.Phi); ok && ph.Comment == "rangeindex" {
					return u, ia.Index, ph.Block()
				}
			}
		}
	}
	return nil, nil, nil
}

var whatwgBinary = func() [256]bool {
	var t [256]bool
	for b := 0; b <= 0x08; b++ {
		t[b] = true
	}
	t[0x0B] = true
	for b := 0x0E; b <= 0x1A; b++ {
		t[b] = true
	}
	for b := 0x1C; b <= 0x1F; b++ {
		t[b] = true
	}
	return t
}()

func main() {
	dir := "/repo"
	if d := os.Getenv("REPO"); d != "" {
		dir = d
	}
	cfg := &packages.Config{Mode: packages.LoadAllSyntax, Dir: dir, Tests: false}
	pkgs, err := packages.Load(cfg, "./...")
	if err != nil || packages.PrintErrors(pkgs) > 0 {
		os.Exit(1)
	}
	prog, spkgs := ssautil.AllPackages(pkgs, ssa.InstantiateGenerics)
	prog.Build()
	byPath := map[string]*ssa.Package{}
	byPathP := map[string]*packages.Package{}
	for i, p := range pkgs {
		byPath[p.PkgPath] = spkgs[i]
		byPathP[p.PkgPath] = p
	}
	magic := byPath[mod+"/internal/magic"]
	charset := byPath[mod+"/internal/charset"]

	// ---- constant tables from the AST ----
	tables := map[*ssa.Global][]constant.Value{}
	type bom struct {
		b   []byte
		enc string
	}
	var boms []bom
	cp := byPathP[mod+"/internal/charset"]
	for _, f := range cp.Syntax {
		ast.Inspect(f, func(n ast.Node) bool {
			vs, ok := n.(*ast.ValueSpec)
			if !ok || len(vs.Names) != 1 || len(vs.Values) != 1 {
				return true
			}
			cl, ok := vs.Values[0].(*ast.CompositeLit)
			if !ok {
				return true
			}
			switch vs.Names[0].Name {
			case "textChars":
				var tb []constant.Value
				for _, el := range cl.Elts {
					tb = append(tb, cp.TypesInfo.Types[el].Value)
				}
				tables[charset.Var("textChars")] = tb
			case "boms":
				for _, el := range cl.Elts {
					ec := el.(*ast.CompositeLit)
					var bb []byte
					for _, x := range ec.Elts[0].(*ast.CompositeLit).Elts {
						v, _ := constant.Int64Val(cp.TypesInfo.Types[x].Value)
						bb = append(bb, byte(v))
					}
					boms = append(boms, bom{bb, constant.StringVal(cp.TypesInfo.Types[ec.Elts[1]].Value)})
				}
			}
			return true
		})
	}
	fmt.Println("textChars entries:", len(tables[charset.Var("textChars")]), "boms:", len(boms))

	// ---- R07.1: Text's byte predicate == WHATWG binary data bytes ----
	{
		f := magic.Func("Text")
		load, _, header := elemLoadOfRange(f, f.Params[0])
		if load == nil {
			fmt.Println("R07.1 UNDECIDED: no range loop over the header parameter")
		} else {
			bad := 0
			for b := 0; b < 256; b++ {
				ev := &evaluator{env: env{load: constant.MakeInt64(int64(b))}}
				ex, ok := ev.walk(load.Block(), header, func(x *ssa.BasicBlock) bool { return x == header })
				if !ok {
					fmt.Println("R07.1 UNDECIDED:", ev.undec)
					bad = -1
					break
				}
				rejected := ex.ret != nil && isConstBool(ex.ret.Results[0], false)
				cont := ex.block == header
				if !(rejected || cont) {
					fmt.Printf("R07.1 UNDECIDED: byte %#x leaves the loop some other way\n", b)
					bad = -1
					break
				}
				if rejected != whatwgBinary[b] {
					bad++
					fmt.Printf("R07.1 VIOLATION: byte %#02x: code says binary=%v, WHATWG says %v\n", b, rejected, whatwgBinary[b])
				}
			}
			if bad == 0 {
				fmt.Println("R07.1 ok: 256/256 byte values agree with the WHATWG table")
			}
		}
	}
	// ---- R07.3 / R11.1: BOM table ----
	{
		want := map[string]string{"\xEF\xBB\xBF": "utf-8", "\x00\x00\xFE\xFF": "utf-32be", "\xFF\xFE\x00\x00": "utf-32le", "\xFE\xFF": "utf-16be", "\xFF\xFE": "utf-16le"}
		okAll := len(boms) == len(want)
		for i, b := range boms {
			if want[string(b.b)] != b.enc || b.enc == "" {
				okAll = false
				fmt.Printf("R07.3 VIOLATION: BOM % x -> %q\n", b.b, b.enc)
			}
			for j := 0; j < i; j++ {
				if strings.HasPrefix(string(b.b), string(boms[j].b)) {
					okAll = false
					fmt.Printf("R07.3 VIOLATION: entry %d (% x) is shadowed by earlier entry %d (% x)\n", i, b.b, j, boms[j].b)
				}
			}
		}
		if okAll {
			fmt.Println("R07.3 ok: 5 BOMs, names as specified, no entry shadowed by an earlier prefix")
		}
	}
	// ---- R11.4: ascii() accepts only 7-bit bytes ; R11.6: latin C1 predicate ----
	{
		f := charset.Func("ascii")
		load, _, header := elemLoadOfRange(f, f.Params[0])
		n := 0
		for b := 0; b < 256; b++ {
			ev := &evaluator{env: env{load: constant.MakeInt64(int64(b))}, tables: tables}
			ex, ok := ev.walk(load.Block(), header, func(x *ssa.BasicBlock) bool { return x == header })
			if !ok {
				fmt.Println("R11.4 UNDECIDED:", ev.undec)
				break
			}
			accepted := ex.block == header
			if accepted && b >= 0x80 {
				n++
				fmt.Printf("R11.4 VIOLATION: the ASCII shortcut accepts byte %#02x (>= 0x80) without UTF-8 validation\n", b)
			}
		}
		if n == 0 {
			fmt.Println("R11.4 ok: ASCII class is within 7-bit")
		}
	}
	{
		f := charset.Func("latin")
		load, _, header := elemLoadOfRange(f, f.Params[0])
		// which bytes set the flag? find the phi #hasControlBytes at header: after one body iteration, is the back-edge value true?
		var flagPhi *ssa.Phi
		for _, in := range header.Instrs {
			if ph, ok := in.(*ssa.Phi); ok && ph.Type().String() == "bool" {
				flagPhi = ph
			}
		}
		bad := 0
		for b := 0; b < 256 && flagPhi != nil; b++ {
			ev := &evaluator{env: env{load: constant.MakeInt64(int64(b)), flagPhi: constant.MakeBool(false)}, tables: tables}
			// bind the index too so that the table lookup works
			ex, ok := ev.walk(load.Block(), header, func(x *ssa.BasicBlock) bool { return x == header })
			if !ok {
				fmt.Println("R11.6 UNDECIDED:", ev.undec)
				bad = -1
				break
			}
			if ex.ret != nil {
				continue // byte rejected (no charset)
			}
			var nv constant.Value
			ok = false
			for k, pr := range header.Preds {
				if pr == ex.from {
					if flagPhi.Edges[k] == ssa.Value(flagPhi) {
						nv, ok = constant.MakeBool(false), true
					} else {
						nv, ok = ev.val(flagPhi.Edges[k])
					}
				}
			}
			if !ok {
				fmt.Println("R11.6 UNDECIDED: flag not evaluable")
				bad = -1
				break
			}
			isC1 := b >= 0x80 && b <= 0x9F
			if constant.BoolVal(nv) != isC1 {
				bad++
				fmt.Printf("R11.6 VIOLATION: byte %#02x sets windows-1252 flag=%v, C1 range says %v\n", b, constant.BoolVal(nv), isC1)
			}
		}
		if bad == 0 {
			fmt.Println("R11.6 ok: flag set exactly for accepted bytes in 0x80-0x9F")
		}
	}
	// ---- R18.2: checksum field blanking == [148,156) and agreement with the parse window ----
	{
		f := magic.Func("tarChksum")
		load, idx, header := elemLoadOfRange(f, f.Params[0])
		var cphi *ssa.Phi
		for _, b := range f.Blocks {
			for _, in := range b.Instrs {
				if ph, ok := in.(*ssa.Phi); ok && ph.Type().String() == "byte" {
					cphi = ph
				}
			}
		}
		bad := 0
		lo, hi := -1, -1
		for i := 0; i < 512 && cphi != nil; i++ {
			ev := &evaluator{env: env{idx: constant.MakeInt64(int64(i))}}
			ex, ok := ev.walk(load.Block(), header, func(x *ssa.BasicBlock) bool { return x == cphi.Block() })
			if !ok {
				fmt.Println("R18.2 UNDECIDED:", ev.undec)
				bad = -1
				break
			}
			var edge ssa.Value
			for k, p := range cphi.Block().Preds {
				if p == ex.from {
					edge = cphi.Edges[k]
				}
			}
			blank := false
			if k, ok := edge.(*ssa.Const); ok {
				v, _ := constant.Int64Val(k.Value)
				blank = v == 32
			} else if edge != ssa.Value(load) {
				fmt.Println("R18.2 UNDECIDED: byte replaced by something else")
			}
			if blank {
				if lo < 0 {
					lo = i
				}
				hi = i + 1
			}
			if blank != (i >= 148 && i < 156) {
				bad++
			}
		}
		// parse window in Tar: slice raw'[a:b] passed to tarParseOctal
		tar := magic.Func("Tar")
		pa, pb := int64(-1), int64(-1)
		for _, b := range tar.Blocks {
			for _, in := range b.Instrs {
				if c, ok := in.(*ssa.Call); ok && c.Call.StaticCallee() == magic.Func("tarParseOctal") {
					if sl, ok := c.Call.Args[0].(*ssa.Slice); ok {
						pa, _ = constant.Int64Val(sl.Low.(*ssa.Const).Value)
						pb, _ = constant.Int64Val(sl.High.(*ssa.Const).Value)
					}
				}
			}
		}
		fmt.Printf("R18.2 blanked window [%d,%d), parsed window [%d,%d), mismatches vs [148,156): %d\n", lo, hi, pa, pb, bad)
	}
	// ---- R08.1 / R13.1: truncation decision tables ----
	{
		type ot struct {
			name         string
			limit, ln    int64
			wantWhole    bool
		}
		cases := []ot{{"limit=0,len=0", 0, 0, true}, {"limit=0,len=7", 0, 7, true}, {"len<limit", 5, 4, true}, {"len==limit", 5, 5, false}, {"len>limit", 5, 6, false}}
		// dropLastLine
		f := magic.Func("dropLastLine")
		for _, c := range cases {
			ev := &evaluator{env: env{f.Params[1]: constant.MakeInt64(c.limit)}}
			for _, b := range f.Blocks {
				for _, in := range b.Instrs {
					if call, ok := in.(*ssa.Call); ok {
						if bi, ok := call.Call.Value.(*ssa.Builtin); ok && bi.Name() == "len" && call.Call.Args[0] == ssa.Value(f.Params[0]) {
							ev.env[call] = constant.MakeInt64(c.ln)
						}
					}
				}
			}
			isLoop := func(x *ssa.BasicBlock) bool { return x.Comment == "for.loop" }
			ex, ok := ev.walk(f.Blocks[0], nil, isLoop)
			if !ok {
				fmt.Println("R13.1 UNDECIDED:", ev.undec)
				continue
			}
			whole := ex.ret != nil && ex.ret.Results[0] == ssa.Value(f.Params[0])
			status := "ok"
			if whole != c.wantWhole {
				status = "VIOLATION"
			}
			fmt.Printf("R13.1 dropLastLine %-14s whole=%v want=%v %s\n", c.name, whole, c.wantWhole, status)
		}
		// jsonHelper: start at the block holding `limit == 0`
		g := magic.Func("jsonHelper")
		var start *ssa.BasicBlock
		var parse *ssa.Call
		for _, b := range g.Blocks {
			for _, in := range b.Instrs {
				if bo, ok := in.(*ssa.BinOp); ok && bo.X == ssa.Value(g.Params[1]) && bo.Op == token.EQL {
					start = b
				}
				if c, ok := in.(*ssa.Call); ok && c.Call.StaticCallee() != nil && c.Call.StaticCallee().Name() == "Parse" {
					parse = c
				}
			}
		}
		uses := func(v ssa.Value, idx int) bool {
			seen := map[ssa.Value]bool{}
			var rec func(x ssa.Value) bool
			rec = func(x ssa.Value) bool {
				if seen[x] {
					return false
				}
				seen[x] = true
				if ex, ok := x.(*ssa.Extract); ok && ex.Tuple == ssa.Value(parse) && ex.Index == idx {
					return true
				}
				if in, ok := x.(ssa.Instruction); ok {
					for _, op := range in.Operands(nil) {
						if *op != nil && rec(*op) {
							return true
						}
					}
				}
				return false
			}
			return rec(v)
		}
		for _, c := range cases {
			ev := &evaluator{env: env{g.Params[1]: constant.MakeInt64(c.limit)}}
			for _, b := range g.Blocks {
				for _, in := range b.Instrs {
					if call, ok := in.(*ssa.Call); ok {
						if bi, ok := call.Call.Value.(*ssa.Builtin); ok && bi.Name() == "len" && call.Call.Args[0] == ssa.Value(g.Params[0]) {
							ev.env[call] = constant.MakeInt64(c.ln)
						}
					}
				}
			}
			// stop at the first block whose terminator (or returned value) depends on Parse results
			dep := func(x *ssa.BasicBlock) bool {
				switch t := x.Instrs[len(x.Instrs)-1].(type) {
				case *ssa.If:
					return uses(t.Cond, 0) || uses(t.Cond, 1)
				case *ssa.Return:
					return true
				}
				return false
			}
			ex, ok := ev.walk(start, start.Preds[0], dep)
			if !ok {
				fmt.Println("R08.1 UNDECIDED:", ev.undec)
				continue
			}
			blk := ex.block
			var v ssa.Value
			switch t := blk.Instrs[len(blk.Instrs)-1].(type) {
			case *ssa.If:
				v = t.Cond
			case *ssa.Return:
				v = t.Results[0]
			}
			crit := "?"
			switch {
			case uses(v, 0) && !uses(v, 1):
				crit = "parsed"
			case uses(v, 1) && !uses(v, 0):
				crit = "inspected"
			}
			want := "inspected"
			if c.wantWhole {
				want = "parsed"
			}
			status := "ok"
			if crit != want {
				status = "VIOLATION"
			}
			fmt.Printf("R08.1 jsonHelper   %-14s criterion=%s want=%s %s\n", c.name, crit, want, status)
		}
	}
}
