// Spike: path/typestate rules for the JSON scanner (R08.2, R10.1, R13.2, R16.2).
package main

import (
	"fmt"
	"go/constant"
	"go/token"
	"go/types"
	"os"
	"sort"
	"strings"

	"golang.org/x/tools/go/packages"
	"golang.org/x/tools/go/ssa"
	"golang.org/x/tools/go/ssa/ssautil"
)

const mod = "github.com/gabriel-vasile/mimetype"

var prog *ssa.Program

func pos(p token.Pos) string {
	q := prog.Fset.Position(p)
	return fmt.Sprintf("%s:%d", q.Filename[strings.LastIndex(q.Filename, "/internal/")+1:], q.Line)
}

func isConstInt(v ssa.Value, want int64) bool {
	k, ok := v.(*ssa.Const)
	if !ok || k.Value == nil || k.Value.Kind() != constant.Int {
		return false
	}
	i, _ := constant.Int64Val(k.Value)
	return i == want
}

// family: methods on *T (T the pooled state struct) returning a single int.
func family(pkg *ssa.Package) (fam map[*ssa.Function]bool, state *types.Named) {
	fam = map[*ssa.Function]bool{}
	for _, m := range pkg.Members {
		t, ok := m.(*ssa.Type)
		if !ok {
			continue
		}
		named, ok := t.Type().(*types.Named)
		if !ok {
			continue
		}
		if _, ok := named.Underlying().(*types.Struct); !ok {
			continue
		}
		ms := prog.MethodSets.MethodSet(types.NewPointer(named))
		n := 0
		for i := 0; i < ms.Len(); i++ {
			f := prog.MethodValue(ms.At(i))
			if f == nil || f.Blocks == nil {
				continue
			}
			r := f.Signature.Results()
			if r.Len() == 1 {
				if b, ok := r.At(0).Type().Underlying().(*types.Basic); ok && b.Kind() == types.Int {
					fam[f] = true
					n++
				}
			}
		}
		if n > 0 {
			state = named
		}
	}
	return
}

func canFail(f *ssa.Function) bool {
	for _, b := range f.Blocks {
		if r, ok := b.Instrs[len(b.Instrs)-1].(*ssa.Return); ok && isConstInt(r.Results[0], 0) {
			return true
		}
	}
	return false
}

type failEdge struct {
	from, to *ssa.BasicBlock
	call     []*ssa.Call
}

// resultSources: family calls whose result may flow (through phis) into v.
func resultSources(v ssa.Value, fam map[*ssa.Function]bool, seen map[ssa.Value]bool) []*ssa.Call {
	if seen[v] {
		return nil
	}
	seen[v] = true
	switch x := v.(type) {
	case *ssa.Call:
		if f := x.Call.StaticCallee(); f != nil && fam[f] && canFail(f) {
			return []*ssa.Call{x}
		}
	case *ssa.Phi:
		var out []*ssa.Call
		all := true
		for _, e := range x.Edges {
			s := resultSources(e, fam, seen)
			if len(s) == 0 {
				all = false
			}
			out = append(out, s...)
		}
		if all {
			return out
		}
	}
	return nil
}

// failEdges finds the CFG edges on which a can-fail family result is known to be <= 0.
func failEdges(f *ssa.Function, fam map[*ssa.Function]bool) (edges []failEdge, tested map[*ssa.Call]bool) {
	tested = map[*ssa.Call]bool{}
	for _, b := range f.Blocks {
		iff, ok := b.Instrs[len(b.Instrs)-1].(*ssa.If)
		if !ok {
			continue
		}
		bo, ok := iff.Cond.(*ssa.BinOp)
		if !ok || !isConstInt(bo.Y, 0) {
			continue
		}
		src := resultSources(bo.X, fam, map[ssa.Value]bool{})
		if len(src) == 0 {
			continue
		}
		var failSucc int
		switch bo.Op {
		case token.EQL, token.LEQ:
			failSucc = 0
		case token.NEQ, token.GTR:
			failSucc = 1
		default:
			continue
		}
		for _, c := range src {
			tested[c] = true
		}
		edges = append(edges, failEdge{b, b.Succs[failSucc], src})
	}
	return
}

func reach(from *ssa.BasicBlock) map[*ssa.BasicBlock]bool {
	r := map[*ssa.BasicBlock]bool{}
	st := []*ssa.BasicBlock{from}
	for len(st) > 0 {
		x := st[len(st)-1]
		st = st[:len(st)-1]
		if r[x] {
			continue
		}
		r[x] = true
		st = append(st, x.Succs...)
	}
	return r
}

// edgeDominates: is block b only reachable through edge (from->to)? (to has single pred and dominates b)
func edgeDominates(from, to, b *ssa.BasicBlock) bool {
	return len(to.Preds) == 1 && to.Preds[0] == from && (to == b || to.Dominates(b))
}

// ---- R08.2 ----
func ruleFailurePropagation(fam map[*ssa.Function]bool) (viol []string, n int) {
	var fs []*ssa.Function
	for f := range fam {
		fs = append(fs, f)
	}
	sort.Slice(fs, func(i, j int) bool { return fs[i].Name() < fs[j].Name() })
	for _, f := range fs {
		edges, tested := failEdges(f, fam)
		// every can-fail family call must be tested
		for _, b := range f.Blocks {
			for _, in := range b.Instrs {
				if c, ok := in.(*ssa.Call); ok {
					if g := c.Call.StaticCallee(); g != nil && fam[g] && canFail(g) {
						n++
						if !tested[c] {
							viol = append(viol, fmt.Sprintf("R08.2 %s: result of %s at %s is never tested for failure", f.Name(), g.Name(), pos(c.Pos())))
						}
					}
				}
			}
		}
		for _, e := range edges {
			for blk := range reach(e.to) {
				if !edgeDominates(e.from, e.to, blk) {
					// reachable also by other ways: only returns dominated by the failed edge are judged here
					continue
				}
				r, ok := blk.Instrs[len(blk.Instrs)-1].(*ssa.Return)
				if !ok {
					continue
				}
				n++
				if isConstInt(r.Results[0], 0) {
					continue
				}
				// exemption: top-level only (dominated by lvl <= 0) and failure flag stored on the way
				if topLevelOnly(f, blk) && flagStored(e.to, blk) {
					continue
				}
				viol = append(viol, fmt.Sprintf("R08.2 %s: after %s failed (edge b%d->b%d) the return at %s yields %s, not 0",
					f.Name(), e.call[0].Call.StaticCallee().Name(), e.from.Index, e.to.Index, pos(r.Pos()), r.Results[0]))
			}
		}
	}
	return
}

func topLevelOnly(f *ssa.Function, blk *ssa.BasicBlock) bool {
	// some dominating edge implies (int param) <= 0
	for d := blk; d != nil; d = d.Idom() {
		if len(d.Preds) != 1 {
			continue
		}
		p := d.Preds[0]
		iff, ok := p.Instrs[len(p.Instrs)-1].(*ssa.If)
		if !ok {
			continue
		}
		bo, ok := iff.Cond.(*ssa.BinOp)
		if !ok {
			continue
		}
		if _, isParam := bo.X.(*ssa.Parameter); !isParam || !isConstInt(bo.Y, 0) {
			continue
		}
		onTrue := p.Succs[0] == d
		if (bo.Op == token.GTR && !onTrue) || (bo.Op == token.EQL && onTrue) || (bo.Op == token.LEQ && onTrue) {
			return true
		}
	}
	return false
}

func flagStored(from, to *ssa.BasicBlock) bool {
	r := reach(from)
	for b := range r {
		if !(b == to || b.Dominates(to)) {
			continue
		}
		for _, in := range b.Instrs {
			if st, ok := in.(*ssa.Store); ok {
				if fa, ok := st.Addr.(*ssa.FieldAddr); ok {
					if k, ok := st.Val.(*ssa.Const); ok && k.Value != nil && k.Value.Kind() == constant.Bool && constant.BoolVal(k.Value) {
						_ = fa
						return true
					}
				}
			}
		}
	}
	return false
}

// ---- R10.1 ----

type ival struct{ lo, hi int } // hi = big means unbounded
const big = 1 << 20

func join(a, b ival) ival {
	if b.lo < a.lo {
		a.lo = b.lo
	}
	if b.hi > a.hi {
		a.hi = b.hi
	}
	return a
}

// stackField: index of the [][]byte-like field that is both appended to and shrunk.
func stackEffect(st *ssa.Store, field int) (delta int, kind string) {
	fa, ok := st.Addr.(*ssa.FieldAddr)
	if !ok || fa.Field != field {
		return 0, ""
	}
	isLoadOfField := func(v ssa.Value) bool {
		u, ok := v.(*ssa.UnOp)
		if !ok || u.Op != token.MUL {
			return false
		}
		f2, ok := u.X.(*ssa.FieldAddr)
		return ok && f2.Field == field && f2.X == fa.X
	}
	switch v := st.Val.(type) {
	case *ssa.Call:
		if b, ok := v.Call.Value.(*ssa.Builtin); ok && b.Name() == "append" && isLoadOfField(v.Call.Args[0]) {
			if sl, ok := v.Call.Args[1].(*ssa.Slice); ok {
				if p, ok := sl.X.Type().Underlying().(*types.Pointer); ok {
					if arr, ok := p.Elem().Underlying().(*types.Array); ok {
						return int(arr.Len()), "push"
					}
				}
			}
		}
	case *ssa.Slice:
		if isLoadOfField(v.X) && v.Low == nil && v.High != nil {
			if bo, ok := v.High.(*ssa.BinOp); ok && bo.Op == token.SUB && isConstInt(bo.Y, 1) {
				if c, ok := bo.X.(*ssa.Call); ok {
					if b, ok := c.Call.Value.(*ssa.Builtin); ok && b.Name() == "len" && isLoadOfField(c.Call.Args[0]) {
						return -1, "pop"
					}
				}
			}
		}
		if isLoadOfField(v.X) && v.Low != nil && v.High != nil && isConstInt(v.Low, 0) && isConstInt(v.High, 0) {
			return 0, "reset"
		}
	}
	return 0, "unknown"
}

func ruleStackBalance(fam map[*ssa.Function]bool, state *types.Named) (viol []string, n int) {
	// find the stack field: a slice field with a push somewhere
	field := -1
	stt := state.Underlying().(*types.Struct)
	for f := range fam {
		for _, b := range f.Blocks {
			for _, in := range b.Instrs {
				if st, ok := in.(*ssa.Store); ok {
					if fa, ok := st.Addr.(*ssa.FieldAddr); ok {
						if _, isSl := stt.Field(fa.Field).Type().Underlying().(*types.Slice); isSl {
							if _, k := stackEffect(st, fa.Field); k == "push" {
								field = fa.Field
							}
						}
					}
				}
			}
		}
	}
	if field < 0 {
		return []string{"R10.1 undecided: no path stack field found"}, 0
	}
	var fs []*ssa.Function
	for f := range fam {
		fs = append(fs, f)
	}
	sort.Slice(fs, func(i, j int) bool { return fs[i].Name() < fs[j].Name() })
	for _, f := range fs {
		edges, _ := failEdges(f, fam)
		failed := map[[2]*ssa.BasicBlock]bool{}
		for _, e := range edges {
			failed[[2]*ssa.BasicBlock{e.from, e.to}] = true
		}
		// succFlow: exact delta assuming every family call succeeded (success delta 0), not crossing failed edges.
		// allFlow: lower bound of delta (callee deltas >= 0).
		type st struct {
			ok   bool
			succ ival
			all  int
			sOK  bool // reachable in succ flow
		}
		in := map[*ssa.BasicBlock]*st{}
		in[f.Blocks[0]] = &st{ok: true, succ: ival{0, 0}, all: 0, sOK: true}
		work := []*ssa.BasicBlock{f.Blocks[0]}
		for iter := 0; len(work) > 0 && iter < 10000; iter++ {
			b := work[0]
			work = work[1:]
			cur := *in[b]
			for _, ins := range b.Instrs {
				switch x := ins.(type) {
				case *ssa.Store:
					d, k := stackEffect(x, field)
					switch k {
					case "push", "pop":
						if k == "pop" {
							n++
							if cur.all < 1 {
								viol = append(viol, fmt.Sprintf("R10.1/R01.1 %s: pop at %s may underflow (depth lower bound %d)", f.Name(), pos(x.Pos()), cur.all))
							}
						}
						cur.succ.lo += d
						cur.succ.hi += d
						cur.all += d
					case "unknown":
						viol = append(viol, fmt.Sprintf("R10.1 undecided: %s: unrecognised store to the path stack at %s", f.Name(), pos(x.Pos())))
					case "reset":
						viol = append(viol, fmt.Sprintf("R10.1 undecided: %s: reset of the path stack inside the scanner at %s", f.Name(), pos(x.Pos())))
					}
				case *ssa.Return:
					n++
					if isConstInt(x.Results[0], 0) {
						if cur.all < 0 {
							viol = append(viol, fmt.Sprintf("R10.1 %s: failure return at %s may leave the stack below entry depth", f.Name(), pos(x.Pos())))
						}
					} else if cur.sOK && (cur.succ.lo != 0 || cur.succ.hi != 0) {
						viol = append(viol, fmt.Sprintf("R10.1 %s: success return at %s leaves the path stack at entry%+d..%+d (pushes and pops unbalanced)", f.Name(), pos(x.Pos()), cur.succ.lo, cur.succ.hi))
					}
				}
			}
			for _, s := range b.Succs {
				nx := cur
				if failed[[2]*ssa.BasicBlock{b, s}] {
					nx.sOK = false
				}
				old, ok := in[s]
				if !ok {
					c := nx
					in[s] = &c
					work = append(work, s)
					continue
				}
				merged := *old
				if nx.sOK {
					if merged.sOK {
						merged.succ = join(merged.succ, nx.succ)
					} else {
						merged.succ, merged.sOK = nx.succ, true
					}
				}
				if nx.all < merged.all {
					merged.all = nx.all
				}
				if merged.succ.hi > 64 {
					merged.succ.hi = big
				}
				if merged != *old {
					*old = merged
					work = append(work, s)
				}
			}
		}
	}
	return
}

// ---- R13.2 ----
func mentionsLimit(v ssa.Value, seen map[ssa.Value]bool) bool {
	if seen[v] {
		return false
	}
	seen[v] = true
	if p, ok := v.(*ssa.Parameter); ok {
		if b, ok := p.Type().Underlying().(*types.Basic); ok && b.Kind() == types.Uint32 {
			return true
		}
	}
	switch v.(type) {
	case *ssa.BinOp, *ssa.Convert, *ssa.UnOp, *ssa.Phi, *ssa.ChangeType:
	default:
		return false
	}
	if in, ok := v.(ssa.Instruction); ok {
		for _, op := range in.Operands(nil) {
			if *op != nil && mentionsLimit(*op, seen) {
				return true
			}
		}
	}
	return false
}

func ruleInspectedGuard(parse *ssa.Function, fns []*ssa.Function) (viol []string, n int) {
	for _, f := range fns {
		for _, b := range f.Blocks {
			for _, in := range b.Instrs {
				ex, ok := in.(*ssa.Extract)
				if !ok || ex.Index != 1 {
					continue
				}
				c, ok := ex.Tuple.(*ssa.Call)
				if !ok || c.Call.StaticCallee() != parse {
					continue
				}
				for _, ref := range *ex.Referrers() {
					bo, ok := ref.(*ssa.BinOp)
					if !ok {
						continue
					}
					n++
					// find the If that consumes this comparison; the comparison must sit under a truncation guard
					guarded := false
					for d := bo.Block(); d != nil; d = d.Idom() {
						if len(d.Preds) != 1 {
							continue
						}
						p := d.Preds[0]
						if iff, ok := p.Instrs[len(p.Instrs)-1].(*ssa.If); ok && mentionsLimit(iff.Cond, map[ssa.Value]bool{}) {
							guarded = true
						}
					}
					if !guarded {
						viol = append(viol, fmt.Sprintf("R13.2 %s: the inspected-bytes result of Parse is compared at %s without a dominating truncated-input guard; complete input must be judged by the parsed length", f.Name(), pos(bo.Pos())))
					}
				}
			}
		}
	}
	return
}

// ---- R16.2 ----
func ruleCap(fam map[*ssa.Function]bool, state *types.Named, all []*ssa.Function) (viol []string, n int) {
	stt := state.Underlying().(*types.Struct)
	// the cap field: int field read in a comparison with an int parameter in an entry guard
	capField := -1
	var guardFn *ssa.Function
	for f := range fam {
		for _, in := range f.Blocks[0].Instrs {
			bo, ok := in.(*ssa.BinOp)
			if !ok {
				continue
			}
			if u, ok := bo.X.(*ssa.UnOp); ok && u.Op == token.MUL {
				if fa, ok := u.X.(*ssa.FieldAddr); ok && isConstInt(bo.Y, 0) && bo.Op == token.NEQ {
					capField, guardFn = fa.Field, f
				}
			}
		}
	}
	if capField < 0 {
		return []string{"R16.2 undecided: no depth guard found at a scanner entry"}, 0
	}
	fmt.Printf("  cap field: %s (guard in %s)\n", stt.Field(capField).Name(), guardFn.Name())
	// every construction of the state in non-test code stores a positive constant into it
	for _, f := range all {
		for _, b := range f.Blocks {
			for _, in := range b.Instrs {
				switch x := in.(type) {
				case *ssa.Alloc:
					pt, ok := x.Type().Underlying().(*types.Pointer)
					if !ok || !types.Identical(pt.Elem(), state) {
						continue
					}
					n++
					okc := false
					for _, r := range *x.Referrers() {
						if fa, ok := r.(*ssa.FieldAddr); ok && fa.Field == capField {
							for _, r2 := range *fa.Referrers() {
								if st, ok := r2.(*ssa.Store); ok {
									if k, ok := st.Val.(*ssa.Const); ok && k.Value != nil {
										if v, _ := constant.Int64Val(k.Value); v > 0 {
											okc = true
										}
									}
								}
							}
						}
					}
					if !okc {
						viol = append(viol, fmt.Sprintf("R16.2 %s: scanner state constructed at %s without a positive recursion cap", f.String(), pos(x.Pos())))
					}
				case *ssa.Store:
					if fa, ok := x.Addr.(*ssa.FieldAddr); ok && fa.Field == capField {
						if pt, ok := fa.X.Type().Underlying().(*types.Pointer); ok && types.Identical(pt.Elem(), state) {
							if _, isAlloc := fa.X.(*ssa.Alloc); !isAlloc {
								viol = append(viol, fmt.Sprintf("R16.2 %s: the recursion cap is overwritten at %s", f.String(), pos(x.Pos())))
							}
						}
					}
				}
			}
		}
	}
	// depth argument along intra-family calls: +k with k>=0, and >=1 on calls leaving the guard function
	for f := range fam {
		var depthParam *ssa.Parameter
		for _, p := range f.Params[1:] {
			if b, ok := p.Type().Underlying().(*types.Basic); ok && b.Kind() == types.Int {
				depthParam = p
			}
		}
		for _, b := range f.Blocks {
			for _, in := range b.Instrs {
				c, ok := in.(*ssa.Call)
				if !ok {
					continue
				}
				g := c.Call.StaticCallee()
				if g == nil || !fam[g] {
					continue
				}
				// find g's depth param index
				gi := -1
				for i, p := range g.Params {
					if i > 0 {
						if bb, ok := p.Type().Underlying().(*types.Basic); ok && bb.Kind() == types.Int {
							gi = i
						}
					}
				}
				if gi < 0 || depthParam == nil {
					continue
				}
				n++
				arg := c.Call.Args[gi]
				inc := -1
				if arg == ssa.Value(depthParam) {
					inc = 0
				} else if bo, ok := arg.(*ssa.BinOp); ok && bo.Op == token.ADD && bo.X == ssa.Value(depthParam) {
					if k, ok := bo.Y.(*ssa.Const); ok {
						v, _ := constant.Int64Val(k.Value)
						inc = int(v)
					}
				}
				if inc < 0 || (f == guardFn && inc < 1) {
					viol = append(viol, fmt.Sprintf("R16.2 %s -> %s at %s: depth argument %s does not increase", f.Name(), g.Name(), pos(c.Pos()), arg))
				}
			}
		}
	}
	return
}

func main() {
	dir := "/repo"
	if d := os.Getenv("REPO"); d != "" {
		dir = d
	}
	cfg := &packages.Config{Mode: packages.LoadAllSyntax, Dir: dir, Tests: false}
	pkgs, err := packages.Load(cfg, "./...")
	if err != nil || packages.PrintErrors(pkgs) > 0 {
		os.Exit(1)
	}
	var spkgs []*ssa.Package
	prog, spkgs = ssautil.AllPackages(pkgs, ssa.InstantiateGenerics)
	prog.Build()
	var jsonPkg *ssa.Package
	for i, p := range pkgs {
		if p.PkgPath == mod+"/internal/json" {
			jsonPkg = spkgs[i]
		}
	}
	var all []*ssa.Function
	for f := range ssautil.AllFunctions(prog) {
		pk := f.Pkg
		for p := f; pk == nil && p.Parent() != nil; p = p.Parent() {
			pk = p.Parent().Pkg
		}
		if pk != nil && strings.HasPrefix(pk.Pkg.Path(), mod) && f.Blocks != nil {
			all = append(all, f)
		}
	}
	sort.Slice(all, func(i, j int) bool { return all[i].String() < all[j].String() })
	fam, state := family(jsonPkg)
	var names []string
	for f := range fam {
		names = append(names, f.Name())
	}
	sort.Strings(names)
	fmt.Println("scanner family:", names, "state:", state.Obj().Name())
	report := func(rule string, v []string, n int) {
		fmt.Printf("%s: %d instances examined, %d findings\n", rule, n, len(v))
		for _, x := range v {
			fmt.Println("   ", x)
		}
	}
	v, n := ruleFailurePropagation(fam)
	report("R08.2 failure propagation", v, n)
	v, n = ruleStackBalance(fam, state)
	report("R10.1 path stack balance", v, n)
	v, n = ruleInspectedGuard(jsonPkg.Func("Parse"), all)
	report("R13.2 criterion/guard agreement", v, n)
	v, n = ruleCap(fam, state, all)
	report("R16.2 recursion cap", v, n)
}
