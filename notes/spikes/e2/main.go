package main

import (
	"fmt"
	"go/constant"
	"go/token"
	"go/types"
	"os"
	"sort"
	"strings"

	"golang.org/x/tools/go/packages"
	"golang.org/x/tools/go/ssa"
	"golang.org/x/tools/go/ssa/ssautil"
)

const mod = "github.com/gabriel-vasile/mimetype"

func (e *Engine) fn(f *ssa.Function) *Fn {
	if s, ok := e.fns[f]; ok {
		return s
	}
	s := newFn(e, f)
	e.fns[f] = s
	s.cellInvariants()
	s.houdini()
	return s
}

// cases cache lives on the engine
var _ = constant.MakeBool

func (e *Engine) modFuncs() []*ssa.Function {
	var out []*ssa.Function
	for f := range ssautil.AllFunctions(e.prog) {
		if e.inMod(f) && f.Blocks != nil && f.Synthetic == "" {
			out = append(out, f)
		}
	}
	sort.Slice(out, func(i, j int) bool { return out[i].String() < out[j].String() })
	return out
}

// ---- summary candidates ----

func (e *Engine) initSummaries(fs []*ssa.Function) {
	for _, f := range fs {
		sum := &Summary{cellShrink: map[int]bool{}}
		res := f.Signature.Results()
		// constants appearing in the callee
		consts := map[int64]bool{}
		for _, b := range f.Blocks {
			for _, in := range b.Instrs {
				for _, op := range in.Operands(nil) {
					if k, ok := (*op).(*ssa.Const); ok && k.Value != nil && k.Value.Kind() == constant.Int && isInt(k.Type()) {
						if v, ok := constant.Int64Val(k.Value); ok && v > 1 && v < 1<<20 {
							consts[v] = true
						}
					}
				}
			}
		}
		for ri := 0; ri < res.Len(); ri++ {
			ri := ri
			rt := res.At(ri).Type()
			add := func(desc string, mk func(e callEnv) Lin) {
				sum.post = append(sum.post, &sumCand{desc: fmt.Sprintf("r%d %s", ri, desc), res: ri, mk: mk, ok: true})
			}
			if isInt(rt) {
				for _, k := range []int64{1, 0, -1} {
					k := k
					add(fmt.Sprintf(">=%d", k), func(e callEnv) Lin { return le(konst(k), e.ret(ri)) })
				}
				for c := range consts {
					c := c
					add(fmt.Sprintf("<=%d", c), func(e callEnv) Lin { return le(e.ret(ri), konst(c)) })
				}
				for pi, p := range f.Params {
					pi := pi
					if isSliceOrStr(p.Type()) {
						add(fmt.Sprintf("<=len(p%d)", pi), func(e callEnv) Lin { return le(e.ret(ri), e.argLen(pi)) })
						add(fmt.Sprintf("<len(p%d)", pi), func(e callEnv) Lin { return lt(e.ret(ri), e.argLen(pi)) })
					}
				}
			} else if isSliceOrStr(rt) {
				for pi, p := range f.Params {
					pi := pi
					if isSliceOrStr(p.Type()) {
						add(fmt.Sprintf("len<=len(p%d)", pi), func(e callEnv) Lin { return le(e.ret(ri), e.argLen(pi)) })
					}
				}
			}
		}
		for pi, p := range f.Params {
			if pt, ok := p.Type().Underlying().(*types.Pointer); ok {
				if _, ok := pt.Elem().Underlying().(*types.Slice); ok {
					sum.cellShrink[pi] = true
				}
			}
		}
		e.sums[f] = sum
	}
}

// checkSummaries re-verifies every surviving candidate; returns true if any was dropped.
func (e *Engine) checkSummaries(fs []*ssa.Function) bool {
	dropped := false
	for _, f := range fs {
		sum := e.sums[f]
		if len(sum.post) == 0 && len(sum.cellShrink) == 0 {
			continue
		}
		s := e.fn(f)
		for _, b := range f.Blocks {
			r, ok := b.Instrs[len(b.Instrs)-1].(*ssa.Return)
			if !ok {
				continue
			}
			facts, dq := s.factsAt(b, len(b.Instrs))
			env := callEnv{
				ret: func(i int) Lin {
					v := r.Results[i]
					if isInt(v.Type()) {
						return s.canon(v)
					}
					return s.lenOf(v)
				},
				arg:    func(i int) Lin { return s.canon(f.Params[i]) },
				argLen: func(i int) Lin { return s.lenOf(f.Params[i]) },
				cellLen: func(i int) Lin {
					k := cellEntryLen{f.Params[i]}
					return term(k)
				},
			}
			for _, c := range sum.post {
				if c.ok && !s.entails(facts, dq, c.mk(env)) {
					c.ok = false
					dropped = true
				}
			}
		}
		// cell shrink: every store to *param keeps len <= entry len
		for pi := range sum.cellShrink {
			if !sum.cellShrink[pi] {
				continue
			}
			p := f.Params[pi]
			for _, b := range f.Blocks {
				for idx, in := range b.Instrs {
					switch x := in.(type) {
					case *ssa.Store:
						if x.Addr != ssa.Value(p) {
							continue
						}
						facts, dq := s.factsAt(b, idx)
						if !s.entails(facts, dq, le(s.lenOf(x.Val), term(cellEntryLen{p}))) {
							sum.cellShrink[pi] = false
							dropped = true
						}
					case *ssa.Call:
						for _, a := range x.Call.Args {
							if a == ssa.Value(p) {
								sum.cellShrink[pi] = false // passes the cell on: not handled
								dropped = true
							}
						}
					}
				}
			}
		}
	}
	return dropped
}

// cellInvariants: for local allocs of slice type passed by address to callees.
func (s *Fn) cellInvariants() {
	s.cellInv = map[*ssa.Alloc][]ssa.Value{}
	for _, b := range s.f.Blocks {
		for _, in := range b.Instrs {
			a, ok := in.(*ssa.Alloc)
			if !ok {
				continue
			}
			if _, ok := a.Type().Underlying().(*types.Pointer).Elem().Underlying().(*types.Slice); !ok {
				continue
			}
			passed, other := s.allocEscapes(a)
			if !passed || other {
				continue
			}
			cands := s.sliceParams()
			for iter := 0; iter < 4; iter++ {
				s.cellInv[a] = cands
				// reset lazily-registered facts that depend on cellInv
				var keep []ssa.Value
				for _, p := range cands {
					ok := true
					for _, r := range *a.Referrers() {
						switch x := r.(type) {
						case *ssa.Store:
							blk := x.Block()
							idx := 0
							for i, y := range blk.Instrs {
								if y == ssa.Instruction(x) {
									idx = i
								}
							}
							fs, dq := s.factsAt(blk, idx)
							if !s.entails(fs, dq, le(s.lenOf(x.Val), s.lenOf(p))) {
								ok = false
							}
						case *ssa.Call:
							f := x.Call.StaticCallee()
							if f == nil || s.e.sums[f] == nil {
								ok = false
								break
							}
							for ai, arg := range x.Call.Args {
								if arg == ssa.Value(a) && !s.e.sums[f].cellShrink[ai] {
									ok = false
								}
							}
						}
					}
					if ok {
						keep = append(keep, p)
					}
				}
				if len(keep) == len(cands) {
					break
				}
				cands = keep
			}
			s.cellInv[a] = cands
		}
	}
}

type obligation struct {
	pos   token.Position
	fn    string
	what  string
	ok    bool
	whyNo string
}

func main() {
	cfg := &packages.Config{Mode: packages.LoadAllSyntax, Dir: repoDir(), Tests: false}
	pkgs, err := packages.Load(cfg, "./...")
	if err != nil || packages.PrintErrors(pkgs) > 0 {
		os.Exit(1)
	}
	prog, _ := ssautil.AllPackages(pkgs, ssa.InstantiateGenerics)
	prog.Build()
	e := &Engine{prog: prog, fns: map[*ssa.Function]*Fn{}, sums: map[*ssa.Function]*Summary{},
		callers: map[*ssa.Function][]*ssa.Call{}, valueUse: map[*ssa.Function]bool{}, pure: map[*ssa.Function]int{},
		cases: map[*ssa.Function][]retCase{}}
	e.inMod = func(f *ssa.Function) bool {
		if f == nil {
			return false
		}
		pk := f.Pkg
		for p := f; pk == nil && p.Parent() != nil; p = p.Parent() {
			pk = p.Parent().Pkg
		}
		return pk != nil && strings.HasPrefix(pk.Pkg.Path(), mod)
	}
	fs := e.modFuncs()
	var withInit []*ssa.Function
	for f := range ssautil.AllFunctions(prog) {
		if e.inMod(f) && f.Blocks != nil {
			withInit = append(withInit, f)
		}
	}
	for _, f := range withInit {
		for _, b := range f.Blocks {
			for _, in := range b.Instrs {
				if c, ok := in.(*ssa.Call); ok {
					if g := c.Call.StaticCallee(); g != nil {
						e.callers[g] = append(e.callers[g], c)
					}
				}
				for _, op := range in.Operands(nil) {
					if g, ok := (*op).(*ssa.Function); ok {
						if c, isCall := in.(*ssa.Call); isCall && c.Call.Value == ssa.Value(g) {
							continue
						}
						e.valueUse[g] = true
					}
				}
			}
		}
	}
	e.initSummaries(fs)
	for iter := 0; iter < 10; iter++ {
		e.fns = map[*ssa.Function]*Fn{}
		e.cases = map[*ssa.Function][]retCase{}
		if !e.checkSummaries(fs) {
			break
		}
		fmt.Println("summary iteration", iter, "dropped some candidates")
	}
	if os.Getenv("SHOWSUM") != "" {
		for _, f := range fs {
			var keep []string
			for _, c := range e.sums[f].post {
				if c.ok {
					keep = append(keep, c.desc)
				}
			}
			for pi, ok := range e.sums[f].cellShrink {
				if ok {
					keep = append(keep, fmt.Sprintf("cellShrink(p%d)", pi))
				}
			}
			if len(keep) > 0 {
				fmt.Printf("SUMMARY %s: %s\n", f, strings.Join(keep, "; "))
			}
		}
	}
	// final pass with stable summaries
	e.fns = map[*ssa.Function]*Fn{}
	e.cases = map[*ssa.Function][]retCase{}
	var obs []obligation
	for _, f := range fs {
		s := e.fn(f)
		for _, b := range f.Blocks {
			for idx, in := range b.Instrs {
				var x ssa.Value
				var lo, hi, i ssa.Value
				kind := ""
				switch v := in.(type) {
				case *ssa.IndexAddr:
					x, i, kind = v.X, v.Index, "index"
				case *ssa.Index:
					x, i, kind = v.X, v.Index, "index"
				case *ssa.Slice:
					x, lo, hi, kind = v.X, v.Low, v.High, "slice"
				default:
					continue
				}
				if in.Pos() == token.NoPos {
					continue
				}
				facts, dq := s.factsAt(b, idx)
				L := s.lenOfX(x)
				o := obligation{pos: prog.Fset.Position(in.Pos()), fn: f.String(), what: kind + " " + in.String(), ok: true}
				fail := func(w string, g Lin) {
					o.ok = false
					o.whyNo += w + "[" + g.String() + "] "
				}
				if kind == "index" {
					iv := s.canon(i)
					if g := le(konst(0), iv); !s.entails(facts, dq, g) {
						fail("lo", g)
					}
					if g := lt(iv, L); !s.entails(facts, dq, g) {
						fail("hi", g)
					}
				} else {
					l := konst(0)
					if lo != nil {
						l = s.canon(lo)
						if g := le(konst(0), l); !s.entails(facts, dq, g) {
							fail("lo>=0", g)
						}
					}
					h := L
					if hi != nil {
						h = s.canon(hi)
						if g := le(h, L); !s.entails(facts, dq, g) {
							fail("hi<=len", g)
						}
						if lo == nil {
							if g := le(konst(0), h); !s.entails(facts, dq, g) {
								fail("hi>=0", g)
							}
						}
					}
					if lo != nil {
						if g := le(l, h); !s.entails(facts, dq, g) {
							fail("lo<=hi", g)
						}
					}
				}
				obs = append(obs, o)
			}
		}
	}
	sort.Slice(obs, func(i, j int) bool {
		if obs[i].pos.Filename != obs[j].pos.Filename {
			return obs[i].pos.Filename < obs[j].pos.Filename
		}
		if obs[i].pos.Line != obs[j].pos.Line {
			return obs[i].pos.Line < obs[j].pos.Line
		}
		return obs[i].pos.Column < obs[j].pos.Column
	})
	ok := 0
	for _, o := range obs {
		if o.ok {
			ok++
		} else {
			fmt.Printf("UNPROVEN %s:%d:%d %s :: %s :: %s\n", strings.TrimPrefix(o.pos.Filename, repoDir()+"/"), o.pos.Line, o.pos.Column, strings.ReplaceAll(o.fn, mod, "M"), o.what, o.whyNo)
		}
	}
	fmt.Printf("obligations=%d proven=%d unproven=%d\n", len(obs), ok, len(obs)-ok)
	lok, ltot := 0, 0
	for _, f := range fs {
		a, b, rep := e.fn(f).rankLoops()
		lok += a
		ltot += b
		for _, r := range rep {
			fmt.Println("LOOP", r)
		}
	}
	fmt.Printf("loops=%d ranked=%d\n", ltot, lok)
}

func repoDir() string {
	if d := os.Getenv("REPO"); d != "" {
		return d
	}
	return "/repo"
}

// ---- termination: ranking functions for non-range loops ----

type loopInfo struct {
	header *ssa.BasicBlock
	blocks map[*ssa.BasicBlock]bool
	latches []*ssa.BasicBlock
}

func findLoops(f *ssa.Function) []loopInfo {
	var out []loopInfo
	for _, h := range f.Blocks {
		var latches []*ssa.BasicBlock
		for _, p := range h.Preds {
			if h.Dominates(p) {
				latches = append(latches, p)
			}
		}
		if len(latches) == 0 {
			continue
		}
		body := map[*ssa.BasicBlock]bool{h: true}
		var st []*ssa.BasicBlock
		st = append(st, latches...)
		for len(st) > 0 {
			x := st[len(st)-1]
			st = st[:len(st)-1]
			if body[x] {
				continue
			}
			body[x] = true
			st = append(st, x.Preds...)
		}
		out = append(out, loopInfo{h, body, latches})
	}
	return out
}

// rankLoops tries, for every loop of f, to find a ranking expression.
func (s *Fn) rankLoops() (ok, total int, report []string) {
	for _, lp := range findLoops(s.f) {
		total++
		if strings.HasPrefix(lp.header.Comment, "rangeindex") {
			ok++ // range over slice/array/string/int: bounded by construction
			continue
		}
		// candidate measures: for every int phi p at the header: +p and -p ; for every slice/string phi: len
		type cand struct {
			desc string
			at   func(edge int) Lin // value of the measure carried by header edge `edge`; -1 = current
		}
		var cands []cand
		for _, in := range lp.header.Instrs {
			ph, isPhi := in.(*ssa.Phi)
			if !isPhi {
				break
			}
			ph2 := ph
			switch {
			case isInt(ph.Type()):
				cands = append(cands,
					cand{"-" + ph.Name(), func(e int) Lin {
						if e < 0 {
							return s.canon(ph2).scale(-1)
						}
						return s.canon(ph2.Edges[e]).scale(-1)
					}},
					cand{"+" + ph.Name(), func(e int) Lin {
						if e < 0 {
							return s.canon(ph2)
						}
						return s.canon(ph2.Edges[e])
					}})
			case isSliceOrStr(ph.Type()):
				cands = append(cands, cand{"len(" + ph.Name() + ")", func(e int) Lin {
					if e < 0 {
						return s.lenOf(ph2)
					}
					return s.lenOf(ph2.Edges[e])
				}})
			}
		}
		found := ""
		for _, c := range cands {
			good := true
			// strictly decreasing on every back edge
			for i, p := range lp.header.Preds {
				if !lp.header.Dominates(p) {
					continue
				}
				fs, dq := s.factsAt(p, len(p.Instrs))
				ef, eq := s.edgeFacts(p, lp.header)
				fs = append(fs, ef...)
				dq = append(dq, eq...)
				if !s.entails(fs, dq, lt(c.at(i), c.at(-1))) {
					good = false
					break
				}
			}
			if !good {
				continue
			}
			// bounded below while the loop continues: measure >= B for some loop-invariant bound:
			// we look for a fact on some latch "measure >= k" for a constant k, or measure + invariant >= 0.
			// Simplification: bounded if at every latch the facts entail measure(current) >= -len(p) - 1 for a slice param, or >= -C.
			bounded := false
			var bounds []Lin
			bounds = append(bounds, konst(-(1 << 20)))
			for _, sp := range s.sliceParams() {
				bounds = append(bounds, s.lenOf(sp).scale(-1).plus(-1))
			}
			for _, b := range bounds {
				allL := true
				for _, p := range lp.latches {
					fs, dq := s.factsAt(p, len(p.Instrs))
					if !s.entails(fs, dq, le(b, c.at(-1))) {
						allL = false
						break
					}
				}
				if allL {
					bounded = true
					break
				}
			}
			if bounded {
				found = c.desc
				break
			}
		}
		if found != "" {
			ok++
		} else {
			report = append(report, fmt.Sprintf("%s loop at b%d (%s): no ranking function found", strings.ReplaceAll(s.f.String(), mod, "M"), lp.header.Index, lp.header.Comment))
		}
	}
	return
}
