// Spike: shape rules on the walk, clone chain, Extend and the reader entry point.
package main

import (
	"fmt"
	"go/constant"
	"go/token"
	"go/types"
	"os"
	"sort"
	"strings"

	"golang.org/x/tools/go/packages"
	"golang.org/x/tools/go/ssa"
	"golang.org/x/tools/go/ssa/ssautil"
)

const mod = "github.com/gabriel-vasile/mimetype"

var prog *ssa.Program
var findings []string
var examined int

func pos(p token.Pos) string {
	q := prog.Fset.Position(p)
	return fmt.Sprintf("%s:%d", q.Filename[strings.LastIndex(q.Filename, "/")+1:], q.Line)
}
func bad(format string, a ...interface{}) { findings = append(findings, fmt.Sprintf(format, a...)) }

type ctx struct {
	pkg   *ssa.Package
	nodeT *types.Named
	field map[string]int
}

func (c *ctx) isNodePtr(t types.Type) bool {
	p, ok := t.Underlying().(*types.Pointer)
	return ok && types.Identical(p.Elem(), c.nodeT)
}

func loadOfField(v ssa.Value, field int) (base ssa.Value, ok bool) {
	u, isU := v.(*ssa.UnOp)
	if !isU || u.Op != token.MUL {
		return nil, false
	}
	fa, isFA := u.X.(*ssa.FieldAddr)
	if !isFA || fa.Field != field {
		return nil, false
	}
	return fa.X, true
}

func reach(from *ssa.BasicBlock) map[*ssa.BasicBlock]bool {
	r := map[*ssa.BasicBlock]bool{}
	st := []*ssa.BasicBlock{from}
	for len(st) > 0 {
		x := st[len(st)-1]
		st = st[:len(st)-1]
		if r[x] {
			continue
		}
		r[x] = true
		st = append(st, x.Succs...)
	}
	return r
}

// ---- R03.2 ----
func (c *ctx) ruleWalk(fs []*ssa.Function) {
	det := c.field["detector"]
	ch := c.field["children"]
	var walkers []*ssa.Function
	for _, f := range fs {
		for _, b := range f.Blocks {
			for _, in := range b.Instrs {
				call, ok := in.(*ssa.Call)
				if !ok || call.Call.IsInvoke() {
					continue
				}
				node, ok := loadOfField(call.Call.Value, det)
				if !ok || !c.isNodePtr(node.Type()) {
					continue
				}
				examined++
				walkers = append(walkers, f)
				recv := f.Params[0]
				// (b) node = children(recv)[rangeindex]
				okNode := false
				if u, ok := node.(*ssa.UnOp); ok && u.Op == token.MUL {
					if ia, ok := u.X.(*ssa.IndexAddr); ok {
						if base, ok := loadOfField(ia.X, ch); ok && base == ssa.Value(recv) {
							if bo, ok := ia.Index.(*ssa.BinOp); ok && bo.Op == token.ADD {
								if ph, ok := bo.X.(*ssa.Phi); ok && ph.Comment == "rangeindex" {
									okNode = true
								}
							}
						}
					}
				}
				if !okNode {
					bad("R03.2 %s: detector invoked at %s on a node that is not children[i] of the receiver in a forward range", f.Name(), pos(call.Pos()))
				}
				// args are the walk's own parameters
				if len(call.Call.Args) != 2 || call.Call.Args[0] != ssa.Value(f.Params[1]) || call.Call.Args[1] != ssa.Value(f.Params[2]) {
					bad("R03.2 %s: detector at %s is not given the walk's own (header, limit)", f.Name(), pos(call.Pos()))
				}
				// (c) result decides: true -> return recursion on the same node
				var iff *ssa.If
				for _, r := range *call.Referrers() {
					if x, ok := r.(*ssa.If); ok {
						iff = x
					}
				}
				if iff == nil {
					bad("R03.2 %s: detector result at %s does not decide the descent", f.Name(), pos(call.Pos()))
					continue
				}
				tb := iff.Block().Succs[0]
				okRec := false
				if ret, ok := tb.Instrs[len(tb.Instrs)-1].(*ssa.Return); ok {
					if rc, ok := ret.Results[0].(*ssa.Call); ok && rc.Call.StaticCallee() == f &&
						rc.Call.Args[0] == node && rc.Call.Args[1] == ssa.Value(f.Params[1]) && rc.Call.Args[2] == ssa.Value(f.Params[2]) {
						okRec = true
					}
				}
				if !okRec {
					bad("R03.2 %s: on a match at %s the walk does not return the recursion on that child with the same arguments", f.Name(), pos(call.Pos()))
				}
				// (d) loop exit returns cloneHierarchy(recv)
				fbReach := reach(iff.Block().Succs[1])
				for blk := range fbReach {
					ret, ok := blk.Instrs[len(blk.Instrs)-1].(*ssa.Return)
					if !ok || blk == tb {
						continue
					}
					examined++
					rc, ok := ret.Results[0].(*ssa.Call)
					if !ok || rc.Call.StaticCallee() == nil || rc.Call.Args[0] != ssa.Value(recv) {
						bad("R03.2 %s: the no-child-matched return at %s is not the clone of the receiver's own chain", f.Name(), pos(ret.Pos()))
					}
				}
			}
		}
	}
	if len(walkers) != 1 {
		bad("R03.2: detector fields are invoked from %d functions, expected exactly one walk", len(walkers))
	}
}

// ---- R03.3 ----
func (c *ctx) ruleCloneChain(f *ssa.Function) {
	par := c.field["parent"]
	// stores to .parent in this function
	n := 0
	for _, b := range f.Blocks {
		for _, in := range b.Instrs {
			st, ok := in.(*ssa.Store)
			if !ok {
				continue
			}
			fa, ok := st.Addr.(*ssa.FieldAddr)
			if !ok || fa.Field != par {
				continue
			}
			n++
			examined++
			// base must be phi(first clone, previous clone); value must be a fresh clone of the current ancestor
			ph, ok := fa.X.(*ssa.Phi)
			val, ok2 := st.Val.(*ssa.Call)
			if !ok || !ok2 {
				bad("R03.3 %s: parent link at %s is not (previous clone).parent = clone(ancestor)", f.Name(), pos(st.Pos()))
				continue
			}
			linked := false
			for _, e := range ph.Edges {
				if e == ssa.Value(val) {
					linked = true // the clone becomes the next "previous"
				}
			}
			if !linked {
				bad("R03.3 %s: the clone stored at %s does not become the next link", f.Name(), pos(st.Pos()))
			}
			// the clone is built with a nil parameter map
			last := val.Call.Args[len(val.Call.Args)-1]
			if k, ok := last.(*ssa.Const); !ok || k.Value != nil {
				bad("R02.2 %s: ancestor clone at %s carries a parameter map", f.Name(), pos(val.Pos()))
			}
		}
	}
	if n != 1 {
		bad("R03.3 %s: %d parent links, expected one in the ancestor loop", f.Name(), n)
	}
}

// ---- R14.1 ----
func (c *ctx) ruleExtend(f *ssa.Function) {
	ch := c.field["children"]
	par := c.field["parent"]
	var fresh *ssa.Alloc
	for _, b := range f.Blocks {
		for _, in := range b.Instrs {
			if a, ok := in.(*ssa.Alloc); ok && c.isNodePtr(a.Type()) {
				fresh = a
			}
		}
	}
	okStore, okParent := false, false
	for _, b := range f.Blocks {
		for _, in := range b.Instrs {
			st, ok := in.(*ssa.Store)
			if !ok {
				continue
			}
			fa, ok := st.Addr.(*ssa.FieldAddr)
			if !ok {
				continue
			}
			if fa.X == ssa.Value(fresh) && fa.Field == par && st.Val == ssa.Value(f.Params[0]) {
				okParent = true
			}
			if fa.X == ssa.Value(f.Params[0]) && fa.Field == ch {
				examined++
				app, ok := st.Val.(*ssa.Call)
				if !ok {
					continue
				}
				if bi, ok := app.Call.Value.(*ssa.Builtin); !ok || bi.Name() != "append" {
					continue
				}
				// first operand: slice of a fresh 1-array holding the new node ; second: load of receiver.children
				first, ok1 := app.Call.Args[0].(*ssa.Slice)
				base, ok2 := loadOfField(app.Call.Args[1], ch)
				if ok1 && ok2 && base == ssa.Value(f.Params[0]) {
					if arr, ok := first.X.(*ssa.Alloc); ok {
						for _, r := range *arr.Referrers() {
							if ia, ok := r.(*ssa.IndexAddr); ok {
								for _, r2 := range *ia.Referrers() {
									if s2, ok := r2.(*ssa.Store); ok && s2.Val == ssa.Value(fresh) {
										okStore = true
									}
								}
							}
						}
					}
				}
			}
		}
	}
	if !okStore {
		bad("R14.1 %s: the new children slice is not [new node] followed by the old children", f.Name())
	}
	if !okParent {
		bad("R14.1 %s: the new node's parent is not the receiver", f.Name())
	}
}

// ---- R02.2 ----
func (c *ctx) ruleParams(f *ssa.Function) {
	var sniff *ssa.MakeMap
	keys := map[string]bool{}
	for _, b := range f.Blocks {
		for _, in := range b.Instrs {
			mu, ok := in.(*ssa.MapUpdate)
			if !ok {
				continue
			}
			examined++
			mm, _ := mu.Map.(*ssa.MakeMap)
			mt := mu.Map.Type().Underlying().(*types.Map)
			if _, isFunc := mt.Elem().Underlying().(*types.Signature); isFunc {
				sniff = mm
				if k, ok := mu.Key.(*ssa.Const); ok {
					keys[constant.StringVal(k.Value)] = true
				}
				continue
			}
			// the parameter map: constant key "charset" only, and only under the ok-edge of the sniffer lookup
			k, ok := mu.Key.(*ssa.Const)
			if !ok || constant.StringVal(k.Value) != "charset" {
				bad("R02.2 %s: parameter %s added at %s", f.Name(), mu.Key, pos(mu.Pos()))
			}
			guarded := false
			for d := mu.Block(); d != nil; d = d.Idom() {
				if len(d.Preds) != 1 {
					continue
				}
				p := d.Preds[0]
				if iff, ok := p.Instrs[len(p.Instrs)-1].(*ssa.If); ok && p.Succs[0] == d {
					if ex, ok := iff.Cond.(*ssa.Extract); ok && ex.Index == 1 {
						if lk, ok := ex.Tuple.(*ssa.Lookup); ok && lk.X == ssa.Value(sniff) {
							guarded = true
						}
					}
				}
			}
			if !guarded {
				bad("R02.2 %s: charset parameter set at %s outside the three text types", f.Name(), pos(mu.Pos()))
			}
		}
	}
	var ks []string
	for k := range keys {
		ks = append(ks, k)
	}
	sort.Strings(ks)
	if strings.Join(ks, ",") != "text/html,text/plain,text/xml" {
		bad("R02.2 %s: sniffer table keys are %v", f.Name(), ks)
	}
}

// ---- R05.2 / R05.3 on DetectReader ----
func (c *ctx) ruleReader(f *ssa.Function) {
	r := f.Params[0]
	var lim ssa.Value
	for _, b := range f.Blocks {
		for _, in := range b.Instrs {
			if call, ok := in.(*ssa.Call); ok && call.Call.StaticCallee() != nil && call.Call.StaticCallee().String() == "sync/atomic.LoadUint32" {
				if lim != nil {
					bad("R05.1 %s: second load of the limit at %s", f.Name(), pos(call.Pos()))
				}
				lim = call
			}
		}
	}
	for _, ref := range *r.Referrers() {
		examined++
		call, ok := ref.(*ssa.Call)
		if !ok {
			if _, isDbg := ref.(*ssa.DebugRef); isDbg {
				continue
			}
			bad("R05.2 %s: the reader escapes at %s", f.Name(), pos(ref.Pos()))
			continue
		}
		switch call.Call.StaticCallee().String() {
		case "io.ReadAll":
			// must be on the l == 0 edge
			okEdge := false
			for d := call.Block(); d != nil; d = d.Idom() {
				if len(d.Preds) == 1 {
					p := d.Preds[0]
					if iff, ok := p.Instrs[len(p.Instrs)-1].(*ssa.If); ok && p.Succs[0] == d {
						if bo, ok := iff.Cond.(*ssa.BinOp); ok && bo.Op == token.EQL && bo.X == lim {
							okEdge = true
						}
					}
				}
			}
			if !okEdge {
				bad("R05.2 %s: ReadAll at %s is not confined to limit == 0", f.Name(), pos(call.Pos()))
			}
		case "io.ReadFull":
			mk, ok := call.Call.Args[1].(*ssa.MakeSlice)
			if !ok || mk.Len != lim || mk.Cap != lim {
				bad("R05.2 %s: ReadFull buffer at %s is not make([]byte, limit)", f.Name(), pos(call.Pos()))
			}
		default:
			bad("R05.2 %s: the reader is handed to %s at %s", f.Name(), call.Call.StaticCallee(), pos(call.Pos()))
		}
	}
	// the walk gets (buf[:n] | ReadAll result, lim)
	for _, b := range f.Blocks {
		for _, in := range b.Instrs {
			call, ok := in.(*ssa.Call)
			if !ok || call.Call.StaticCallee() == nil || call.Call.StaticCallee().Name() != "match" {
				continue
			}
			examined++
			if call.Call.Args[2] != lim {
				bad("R05.1 %s: the walk at %s is not given the limit that sized the read", f.Name(), pos(call.Pos()))
			}
			ph, ok := call.Call.Args[1].(*ssa.Phi)
			if !ok {
				bad("R05.2 %s: unexpected buffer at %s", f.Name(), pos(call.Pos()))
				continue
			}
			for _, e := range ph.Edges {
				switch x := e.(type) {
				case *ssa.Extract: // ReadAll result
				case *ssa.Slice:
					n, ok := x.High.(*ssa.Extract)
					if !ok || x.Low != nil || n.Index != 0 {
						bad("R05.2 %s: buffer not cut to the bytes read at %s", f.Name(), pos(x.Pos()))
					}
				default:
					bad("R05.2 %s: the walk sees the whole limit-sized buffer (not buf[:n]) at %s", f.Name(), pos(call.Pos()))
				}
			}
		}
	}
	// R05.3 error discipline: every error-typed Extract is tested; on err != nil only comparisons with io.EOF / io.ErrUnexpectedEOF may lead back to the success path
	errT := types.Universe.Lookup("error").Type()
	for _, b := range f.Blocks {
		for _, in := range b.Instrs {
			ex, ok := in.(*ssa.Extract)
			if !ok || !types.Identical(ex.Type(), errT) {
				continue
			}
			examined++
			src := ex.Tuple.(*ssa.Call).Call.StaticCallee().String()
			for _, ref := range *ex.Referrers() {
				bo, ok := ref.(*ssa.BinOp)
				if !ok {
					continue
				}
				if k, ok := bo.Y.(*ssa.Const); ok && k.Value == nil {
					continue // err != nil
				}
				// comparison with a sentinel
				sentinel := ""
				if u, ok := bo.Y.(*ssa.UnOp); ok {
					if g, ok := u.X.(*ssa.Global); ok {
						sentinel = g.Pkg.Pkg.Path() + "." + g.Name()
					}
				}
				if src != "io.ReadFull" || (sentinel != "io.EOF" && sentinel != "io.ErrUnexpectedEOF") {
					bad("R05.3 %s: error of %s is excused by comparison with %q at %s", f.Name(), src, sentinel, pos(bo.Pos()))
				}
			}
		}
	}
}

func main() {
	dir := "/repo"
	if d := os.Getenv("REPO"); d != "" {
		dir = d
	}
	cfg := &packages.Config{Mode: packages.LoadAllSyntax, Dir: dir, Tests: false}
	pkgs, err := packages.Load(cfg, "./...")
	if err != nil || packages.PrintErrors(pkgs) > 0 {
		os.Exit(1)
	}
	var spkgs []*ssa.Package
	prog, spkgs = ssautil.AllPackages(pkgs, ssa.InstantiateGenerics)
	prog.Build()
	c := &ctx{field: map[string]int{}}
	for i, p := range pkgs {
		if p.PkgPath == mod {
			c.pkg = spkgs[i]
		}
	}
	c.nodeT = c.pkg.Type("MIME").Type().(*types.Named)
	st := c.nodeT.Underlying().(*types.Struct)
	for i := 0; i < st.NumFields(); i++ {
		c.field[st.Field(i).Name()] = i
	}
	var fs []*ssa.Function
	for f := range ssautil.AllFunctions(prog) {
		pk := f.Pkg
		for p := f; pk == nil && p.Parent() != nil; p = p.Parent() {
			pk = p.Parent().Pkg
		}
		if pk == c.pkg && f.Blocks != nil {
			fs = append(fs, f)
		}
	}
	sort.Slice(fs, func(i, j int) bool { return fs[i].String() < fs[j].String() })
	byName := map[string]*ssa.Function{}
	for _, f := range fs {
		byName[f.Name()] = f
	}
	c.ruleWalk(fs)
	c.ruleCloneChain(byName["cloneHierarchy"])
	c.ruleExtend(prog.MethodValue(prog.MethodSets.MethodSet(types.NewPointer(c.nodeT)).Lookup(c.pkg.Pkg, "Extend")))
	c.ruleParams(byName["match"])
	c.ruleReader(c.pkg.Func("DetectReader"))
	sort.Strings(findings)
	fmt.Printf("instances examined: %d, findings: %d\n", examined, len(findings))
	for _, x := range findings {
		fmt.Println("   ", x)
	}
}
